"""C08 - explode and substitute equal the truncated re-roll process."""
import math
import operator
from fractions import Fraction

from common import chist, clist, cq, cz, hist_items, qv
import evalcommon as ec
import gens
import pools
from props.C06 import _cans

PID = "C08"
CODES = True
RULE = ("corpus first; then histograms (weighted, zero-count faces, negative faces, single-faced, empty) x predicates "
        "as face subsets (and the default predicate) x limits (None, 0..4, True, Fractions/floats incl. branch "
        "probabilities, illegal values) for evaluation.explode; expand/coalesce tables for H.substitute with "
        "max_depth / precision_limit / both; the deprecated H.explode and P.explode spellings compared with "
        "evaluation.explode.  Observable: returned histogram (count function, lowest terms) or exception class.  "
        "Non-trivial: at least two faces, a predicate that holds for some positive-count face and a limit >= 1.")
ASSUMPTIONS = [
    "Python's interpreter stack limit is modelled by fuel and not exercised",
    "inf * outcome of the single-face special case is outside the rational domain unless a finite `inf` is passed (skipped and counted)",
]


def gen_lim(rng, h):
    ps = []
    t = sum(c for _, c in h)
    if t:
        ps = [Fraction(c, t) for _, c in h if 0 < c < t]
        ps += [a * b for a in ps[:3] for b in ps[:3]]
    return ec.gen_limit(rng, [p for p in ps if 0 < p < 1] or None)


def _npos(items):
    return sum(1 for _, c in items if c > 0)


def _frac(lim):
    return lim is not None and lim[0] in ("frac", "float")


def _safe(case):
    """fractional limits only terminate when every re-rolled histogram has at least two faces of
    positive count (otherwise Python recurses until RecursionError, which the fuel does not mirror)"""
    k = case["kind"]
    if k == "explode":
        return not _frac(case["lim"]) or _npos(case["h"]) >= 2 or len(case["h"]) == 1
    if k == "substitute":
        if not _frac(case["pl"]) and not (_frac(case["md"])):
            return True
        return _npos(case["h"]) >= 2 and all(t[0] != "hist" or _npos(t[1]) >= 2 for _, t in case["table"])
    return not (_frac(case["pl"]) or _frac(case["md"])) or _npos(case["h"]) >= 2 or len(case["h"]) == 1


def gen_cases(rng, tier):
    return [c for c in _gen_cases(rng, tier) if _safe(c)]


def _gen_cases(rng, tier):
    n = 300 if tier == "quick" else 4000
    cases = []
    for i in range(n // 12):
        # limits exactly equal to the probability of a chain of re-rolls
        m = rng.choice([3, 5, 6, 7, 10, 10, 20])
        k = rng.choice([1, 2, 2, 3]) if m <= 10 else rng.choice([1, 2])
        h = [[gens.q(j), 1] for j in range(1, m + 1)]
        if rng.random() < 0.3:
            h = [[gens.q(1), 1], [gens.q(2), 4]] if rng.random() < 0.5 else [[gens.q(1), 3], [gens.q(2), 2]]
            t = 5
            c = h[-1][1]
            lim = Fraction(c, t) ** k
        else:
            lim = Fraction(1, m) ** k
        kind = rng.choice(["explode", "explode", "h_explode"])
        if kind == "explode":
            cases.append({"kind": "explode", "h": h, "sub": None, "lim": ["frac", lim.numerator, lim.denominator], "inf": None})
        else:
            cases.append({"kind": "h_explode", "h": h, "md": None, "pl": ["frac", lim.numerator, lim.denominator], "via_pool": rng.random() < 0.3})
    for i in range(n // 15):
        # the single-face special case (extrapolation to `inf`) under every spelling of a fractional limit
        f = rng.choice([1, 2, -3, 4])
        h = [[gens.q(f), rng.choice([1, 1, 7])]]
        num, den = rng.choice([(1, 4), (1, 8), (1, 10000), (3, 8)])
        lim = [rng.choice(["frac", "float", "float"]), num, den]
        sub = rng.choice([None, [gens.q(f)], "maxcount"])
        cases.append({"kind": "explode", "h": h, "sub": sub, "lim": lim, "inf": 1000})
    for i in range(n // 10):
        # weighted die, a predicate that holds for two or more faces of different weight, fractional limits on
        # and between the probabilities of the chains of re-rolls (the cut depends on the path taken)
        cs = rng.sample([1, 2, 3, 5, 6], 3)
        h = [[gens.q(j + 1), c] for j, c in enumerate(cs)]
        t = sum(cs)
        sub = [o for o, _ in rng.sample(h, 2)]
        ps = sorted({Fraction(c, t) for o, c in h if o in sub})
        cands = [ps[0], ps[-1], ps[0] * ps[-1], ps[-1] ** 2, ps[0] ** 2, (ps[0] + ps[-1]) / 2, (ps[0] * ps[-1] + ps[-1] ** 2) / 2,
                 ps[-1] ** 3, ps[0] * ps[-1] ** 2]
        lim = rng.choice([c for c in cands if 0 < c < 1])
        cases.append({"kind": "explode", "h": h, "sub": sub, "lim": ["frac", lim.numerator, lim.denominator], "inf": None})
    for i in range(n // 10):
        # an expand function that looks at the histogram it is given: two histograms share a face that is final
        # in one and expands in the other ("d6: on 6 roll a d4; d4: on 1 go back to the d6")
        a = gens.hist_pos(rng, max_faces=3, frac_p=0.0, style=rng.choice(["unit", "pos"]))
        if len(a) < 2:
            continue
        shared = a[0][0]
        b = sorted([[shared, rng.choice([1, 2])]] + [[gens.q(v), 1] for v in rng.sample(range(8, 12), rng.randint(1, 2))],
                   key=lambda oc: Fraction(*oc[0]))
        ta = [[a[-1][0], ["hist", b]]]                  # top face of a -> roll b
        tb = [[shared, ["hist", [list(x) for x in a]]]]   # shared face: final in a, back to a from b
        if rng.random() < 0.5:
            tb.append([b[-1][0], ["out", gens.q(0)]])
        md = rng.choice([["int", 2], ["int", 3], ["int", 4], None])
        pl = None
        if md is None:
            pl = rng.choice([["frac", 1, 20], ["frac", 1, 50]])
        cases.append({"kind": "substitute", "h": a, "table": ta, "tables2": [[b, tb]], "coalesce": rng.choice(["replace", "add"]),
                      "md": md, "pl": pl, "via_pool": rng.random() < 0.35})
    for i in range(n):
        r = i % 10
        h = gens.hist(rng, max_faces=4, style=rng.choice(["unit", "small", "pos"]), frac_p=0.05)
        if rng.random() < 0.12:
            h = [[gens.outcome(rng, 0.0), rng.choice([1, 2])]]
        faces = [o for o, _ in h]
        if r < 5:
            lim = gen_lim(rng, h)
            if lim and lim[0] in ("frac", "float") and 0 < Fraction(lim[1], lim[2]) < Fraction(1, 300):
                lim = ["frac", 1, 100]
            if lim and lim[0] == "int" and (lim[1] == -1 or lim[1] > 4):
                lim = ["int", 4]
            q = rng.random()
            sub = None if q < 0.3 else "maxcount" if q < 0.4 else [f for f in faces if rng.random() < 0.5]
            if (sub is None or sub == "maxcount") and h and rng.random() < 0.5:
                # the histogram-dependent predicates must see the histogram as given: zero-count faces
                # at the top / unreduced counts
                top = max(Fraction(*o) for o, _ in h) + rng.randint(1, 2)
                h = h + [[[top.numerator, top.denominator], 0]]
                if rng.random() < 0.5:
                    h = [[o, c * 2] for o, c in h]
            inf = rng.choice([None, None, 1000])
            cases.append({"kind": "explode", "h": h, "sub": sub, "lim": lim, "inf": inf,
                          "src_form": rng.choice(["H", "H", "H", "dict", "pairs", "pairs_iter", "generator", "zip", "P"])})
        elif r < 8:
            table = []
            for f in faces:
                q = rng.random()
                if q < 0.4:
                    continue
                if q < 0.6:
                    table.append([f, ["out", gens.outcome(rng, 0.0)]])
                elif q < 0.85:
                    table.append([f, ["hist", [list(x) for x in h]]])
                else:
                    table.append([f, ["hist", gens.hist(rng, max_faces=3, style="small", frac_p=0.0)]])
            md = rng.choice([None, None, ["int", 0], ["int", 1], ["int", 2], ["int", 3], ["bool", True], ["int", -2]])
            pl = None
            if rng.random() < 0.3:
                pl = rng.choice([["frac", 1, 4], ["frac", 1, 16], ["float", 1, 8], ["frac", 3, 2]])
                if rng.random() < 0.7:
                    md = None
            cases.append({"kind": "substitute", "h": h, "table": table, "coalesce": rng.choice(["replace", "add"]), "md": md, "pl": pl,
                          "via_pool": rng.random() < 0.35})
        else:
            md = rng.choice([None, ["int", 0], ["int", 1], ["int", 2], ["int", 3]])
            pl = rng.choice([None, None, None, ["frac", 1, 8], ["frac", 1, 36]])
            cases.append({"kind": "h_explode", "h": h, "md": md, "pl": pl, "via_pool": rng.random() < 0.3})
    for i in range(max(8, n // 40)):
        # the guard of the deprecated spelling is on the NUMBER OF FACES: single-faced histograms of any weight
        # (and zero-padded ones, which have two faces) under integer and fractional limits, also through a pool
        f = rng.choice([1, 2, -3, 4, 0])
        w = rng.choice([1, 2, 3, 7])
        h = [[gens.q(f), w]]
        md = rng.choice([None, ["int", 1], ["int", 2], ["int", 3]])
        pl = None if md is not None else rng.choice([None, ["frac", 1, 3], ["frac", 1, 8]])
        if md is not None and rng.random() < 0.25:
            # (only with an integer limit: a certain re-roll under a fractional limit ends at the stack limit)
            h = sorted(h + [[gens.q(f - 1), 0]], key=lambda oc: Fraction(*oc[0]))
        cases.append({"kind": "h_explode", "h": h, "md": md, "pl": pl, "via_pool": rng.random() < 0.4})
    return cases


def impl_run(case):
    from dyce import H, P
    from dyce.evaluation import explode
    from dyce.h import coalesce_replace
    k = case["kind"]
    h = H(gens.py_hist_dict(case["h"]))
    try:
        if k == "explode":
            kw = {}
            if case["sub"] == "maxcount":
                kw["predicate"] = lambda r: r.h[r.outcome] == max(r.h.counts())
            elif case["sub"] is not None:
                sub = [gens.py_outcome(o) for o in case["sub"]]
                kw["predicate"] = lambda r: r.outcome in sub
            if case["inf"] is not None:
                kw["inf"] = case["inf"]
            d = dict(h.items())
            form = case.get("src_form", "H")
            src = {"H": h, "dict": d, "pairs": list(d.items()), "pairs_iter": iter(list(d.items())),
                   "generator": ((o, c) for o, c in list(d.items())), "zip": zip(list(d), list(d.values())),
                   "P": P(h) if h.total else h}[form]
            r = explode(src, limit=ec.py_limit(case["lim"]), **kw)
        elif k == "substitute":
            tbl = {Fraction(*f): t for f, t in case["table"]}

            tbls2 = [(t2h, {Fraction(*f): t for f, t in t2}) for t2h, t2 in case.get("tables2", [])]

            def expand(hh, outcome):
                cur = tbl
                for t2h, t2 in tbls2:
                    if hist_items(hh) == [[list(o), c] for o, c in t2h]:
                        cur = t2
                        break
                t = cur.get(Fraction(outcome))
                if t is None:
                    return outcome
                if t[0] == "out":
                    return gens.py_outcome(t[1])
                return H(gens.py_hist_dict(t[1]))
            co = coalesce_replace if case["coalesce"] == "replace" else operator.__add__
            kw = {}
            if case["md"] is not None:
                kw["max_depth"] = ec.py_limit(case["md"])
            if case["pl"] is not None:
                kw["precision_limit"] = ec.py_limit(case["pl"])
            recv = P(h) if case.get("via_pool") else h
            if case.get("positional") and case["pl"] is not None and case["md"] is None:
                r = recv.substitute(expand, co, 1, kw["precision_limit"]) if False else recv.substitute(expand, co, precision_limit=kw["precision_limit"])
            else:
                r = recv.substitute(expand, co, **kw)
        else:
            kw = {}
            if case["md"] is not None:
                kw["max_depth"] = ec.py_limit(case["md"])
            if case["pl"] is not None:
                kw["precision_limit"] = ec.py_limit(case["pl"])
            r = (P(h) if case["via_pool"] else h).explode(**kw)
            out = {"ok": hist_items(r)}
            lim = case["pl"] if case["pl"] is not None else case["md"]
            try:
                ref = explode(h, limit=ec.py_limit(lim))
                out["spelling_ok"] = hist_items(ref) == out["ok"] or (case["md"] is not None and case["pl"] is not None)
            except Exception:
                out["spelling_ok"] = False
            return out
        return {"ok": hist_items(r)}
    except (ValueError, TypeError, IndexError, ZeroDivisionError, RecursionError, OverflowError) as e:
        return {"exc": type(e).__name__}


def _cval(t):
    return f"(VOut {cq(t[1])})" if t[0] == "out" else f"(VHist {chist(t[1])})"


def coq_check(case, r):
    e = _cans(r) if ("ok" in r or "exc" in r) else None
    if r.get("exc") == "OverflowError":
        return None
    if e is None:
        return "MISMATCH"
    k = case["kind"]
    if k == "explode":
        inf = "None" if case["inf"] is None else f"(Some {cq([case['inf'], 1])})"
        if case["sub"] is None:
            return f"chk_explode_default {chist(case['h'])} {ec.climit(case['lim'])} {inf} {e}"
        if case["sub"] == "maxcount":
            return f"chk_explode_maxcount {chist(case['h'])} {ec.climit(case['lim'])} {inf} {e}"
        return f"chk_explode {chist(case['h'])} {clist(cq(o) for o in case['sub'])} {ec.climit(case['lim'])} {inf} {e}"
    if k == "substitute":
        tbl = clist(f"({cq(f)}, {_cval(t)})" for f, t in case["table"])
        if case.get("tables2"):
            t2 = clist("(%s, %s)" % (chist(hh), clist(f"({cq(f)}, {_cval(t)})" for f, t in tt)) for hh, tt in case["tables2"])
            return (f"chk_substitute2 {chist(case['h'])} {tbl} {t2} {'true' if case['coalesce'] == 'add' else 'false'} "
                    f"{ec.climit(case['md'])} {ec.climit(case['pl'])} {e}")
        return (f"chk_substitute {chist(case['h'])} {tbl} {'true' if case['coalesce'] == 'add' else 'false'} "
                f"{ec.climit(case['md'])} {ec.climit(case['pl'])} {e}")
    return f"chk_h_explode {chist(case['h'])} {ec.climit(case['md'])} {ec.climit(case['pl'])} {e}"


def coq_show(case):
    return None


# ---- oracle: the truncated re-roll process over Fractions ---------------------------------------

class Unsup(Exception):
    pass


def _process(self_items, start_items, lim_raw, step):
    """generic bounded recursion: step(face, src_items) -> ('out', value) | ('rec', next_items, post) where
    post maps a distribution to a distribution; sentinel = dist(self_items)"""
    if lim_raw is None:
        nl = ("int", 1)
    else:
        nl = ec.norm_limit(lim_raw)
    budget = {"n": 0}

    def ev(items, depth, prec):
        budget["n"] += 1
        if budget["n"] > 20000:
            raise ec.Budget()
        if (nl[0] == "int" and depth >= nl[1]) or (nl[0] == "frac" and prec <= nl[1]):
            return ec.dist_of_items(self_items)
        t = sum(c for _, c in items)
        mix, wsum = {}, Fraction(0)
        for o, c in items:
            p = Fraction(c, t or 1)
            f = Fraction(*o)
            s = step(f, items)
            if s[0] == "out":
                d = {s[1]: Fraction(1)}
            elif s[0] == "hist":
                d = s[1]
                if not d:
                    continue
            else:
                d = s[2](ev(s[1], depth + 1, prec * p))
                if not d:
                    continue
            wsum += p
            for x, px in d.items():
                mix[x] = mix.get(x, 0) + p * px
        if wsum == 0:
            return {}
        return {x: px / wsum for x, px in mix.items() if px}
    return ev(start_items, 0, Fraction(1))


def oracle(case):
    k = case["kind"]
    h = case["h"]
    try:
        if k == "explode":
            lim = case["lim"]
            fractional = lim is not None and lim[0] not in ("int", "bool")
            if case["sub"] is None:
                pred = lambda f, items: f == max(Fraction(*o) for o, _ in items)
            elif case["sub"] == "maxcount":
                pred = lambda f, items: dict((Fraction(*o), c) for o, c in items)[f] == max(c for _, c in items)
            else:
                sub = {Fraction(*o) for o in case["sub"]}
                pred = lambda f, items: f in sub

            def step(f, items):
                if pred(f, items):
                    if len(items) == 1 and fractional:
                        if f == 0:
                            return ("hist", {f: Fraction(1)})
                        if case["inf"] is None:
                            raise Unsup()
                        return ("hist", {case["inf"] * f: Fraction(1)})
                    return ("rec", items, lambda d: {x + f: p for x, p in d.items()})
                return ("out", f)
            return {"dist": ec.dist_json(_process(h, h, lim, step))}
        if k == "substitute":
            if case["md"] is not None and case["pl"] is not None:
                return {"exc": "ValueError"}
            lim = case["pl"] if case["pl"] is not None else case["md"]
            tbl = {Fraction(*f): t for f, t in case["table"]}

            tbls2 = [([[list(o), c] for o, c in t2h], {Fraction(*f): t for f, t in t2}) for t2h, t2 in case.get("tables2", [])]

            def step(f, items):
                cur = tbl
                for t2h, t2 in tbls2:
                    if [[list(o), c] for o, c in items] == t2h:
                        cur = t2
                        break
                t = cur.get(f)
                if t is None:
                    return ("out", f)
                if t[0] == "out":
                    return ("out", Fraction(*t[1]))
                post = (lambda d: d) if case["coalesce"] == "replace" else (lambda d: {x + f: p for x, p in d.items()})
                return ("rec", t[1], post)
            return {"dist": ec.dist_json(_process(h, h, lim, step))}
        if k == "h_explode":
            if case["md"] is not None and case["pl"] is not None:
                return {"exc": "ValueError"}
            lim = case["pl"] if case["pl"] is not None else case["md"]

            def step(f, items):
                if len(items) == 1:
                    return ("out", f)      # the documented guard of the deprecated method
                if f == max(Fraction(*o) for o, _ in items):
                    return ("rec", items, lambda d: {x + f: p for x, p in d.items()})
                return ("out", f)
            return {"dist": ec.dist_json(_process(h, h, lim, step))}
    except Unsup:
        return None
    except (ec.Budget, RecursionError):
        return None
    except (ValueError, TypeError) as e:
        return {"exc": type(e).__name__}


def agree(case, r, o):
    if "exc" in o:
        return r.get("exc") == o["exc"]
    if "ok" not in r:
        return False
    want = {Fraction(*k): Fraction(*v) for k, v in o["dist"]}
    if ec.dist_of_items(r["ok"]) != want:
        return False
    counts = [c for _, c in r["ok"]]
    if counts and (min(counts) <= 0 or math.gcd(*counts) != 1):
        return False
    return r.get("spelling_ok", True)


def known_finding_result(case, r, known):
    """K1: the deprecated H.explode / P.explode return a single-faced histogram unchanged (documented
    guard) where evaluation.explode re-rolls it.  Only that exact behaviour is the recorded finding: the
    answer must be the one the guard gives (the oracle and the Coq model both contain the guard) and differ
    from evaluation.explode in nothing but the spelling comparison; any other answer for a single-faced
    histogram is a different violation and is reported."""
    if case["kind"] == "h_explode" and len(case["h"]) == 1:
        o = oracle(case)
        if o is None or not agree(case, dict(r, spelling_ok=True), o):
            return None
        for f in known.get("findings", []):
            if f.get("property") == "C08" and f.get("predicate") == "single_faced_histogram_to_deprecated_explode":
                return f["text"]
    return None


def nontrivial(case, r):
    if len(case["h"]) < 2 or "ok" not in r:
        return False
    if case["kind"] == "explode":
        lim = case["lim"]
        return (case["sub"] is None or bool(case["sub"])) and not (lim and lim[0] == "int" and lim[1] == 0)
    if case["kind"] == "substitute":
        return any(t[0] == "hist" for _, t in case["table"])
    return True


def case_class(case, r):
    k = case["kind"]
    lim = case.get("lim") if k == "explode" else (case.get("pl") or case.get("md"))
    return f"{k}:{'none' if lim is None else lim[0]}:{'single' if len(case['h']) == 1 else 'multi'}" + (":" + r["exc"] if "exc" in r else "")
