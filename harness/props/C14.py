"""C14 - evaluation limits and context never leak across calls, even after errors."""
from fractions import Fraction

from common import clist
import evalcommon as ec
import gens
import pools
from props.C06 import _cans
from props import C07

PID = "C14"
CODES = True
RULE = ("corpus first; then mechanics as in C06/C07 (recursive, nested, pool sources); a first top-level evaluation "
        "in which a marker exception is raised at callback invocation index i (i ranges over the invocations of the "
        "fault-free run, nested evaluations and pool-roll enumeration included), followed in the same interpreter by "
        "probe evaluations (default limit, explicit limits, a recursive mechanic, explode).  Checked: the very same "
        "exception object (user-defined subclasses of Exception, BaseException, RuntimeError, NotImplementedError, "
        "StopIteration, KeyError, OverflowError, OSError, MemoryError, ... and plain built-ins) reaches the caller; every probe answer equals the stateless oracle / the model started "
        "from a fresh context.  Non-trivial: the fault fires inside a nested evaluation or a multi-branch one.")
ASSUMPTIONS = [
    "thread-level behaviour of contextvars.ContextVar is not modelled (single-threaded evaluation)",
    "the interpreter stack limit is modelled by fuel and not exercised",
]


def gen_cases(rng, tier):
    n = 200 if tier == "quick" else 2500
    cases = []
    tries = 0
    while len(cases) < n and tries < n * 4:
        tries += 1
        acyclic = rng.random() < 0.3
        # a third of the mechanics have branches that bottom out the stack (RecursionError -> sentinel for that
        # branch only; no other branch, and no later evaluation, may be affected)
        mech = C07.gen_mech(rng, acyclic, recerr_p=rng.choice([0.04, 0.04, 0.3]), try_classes=("ValueError",))   # injected faults are never ValueErrors
        lim = rng.choice([None, ["int", 1], ["int", 2], ["int", 3], ["frac", 1, 4], ["frac", 1, 8]])
        probes = [[0, None], [0, ["int", 2]], [len(mech["states"]) - 1, rng.choice([None, ["int", 1], ["frac", 1, 4]])],
                  [rng.randrange(len(mech["states"])), ["int", 0]]]
        calls = [[0, lim]] + probes
        bad_source = rng.random() < 0.15
        if bad_source:
            # the aborted evaluation fails while ENUMERATING a source (a selection beyond the pool), at top level
            # or inside a nested evaluation; the exception reaches the caller and nothing is left behind
            bad = {"srcs": [{"pw": [[[gens.q(1), 1], [gens.q(2), 1]]] * 2, "which": [{"i": rng.choice([2, 5, -3])}]}],
                   "npos": rng.randint(0, 1), "sentinel": [[gens.q(300), 1]], "table": []}
            mech["states"].append(bad)
            bi = len(mech["states"]) - 1
            if rng.random() < 0.5 and mech["states"][0]["table"]:
                mech["states"][0]["table"][0][1] = ["call", bi, None]      # nested: reached from state 0's callback
                calls = [[0, ["int", 2]]] + probes
            else:
                calls = [[bi, lim]] + probes
        if rng.random() < 0.25 and not bad_source:
            # the same callback used again with another sentinel: limit 0 hands back the sentinel of THAT call
            import copy
            clone = copy.deepcopy(mech["states"][0])
            clone["sentinel"] = rng.choice([[[gens.q(400), 1]], [[gens.q(400), 2], [gens.q(401), 2]]])
            clone["cb_of"] = 0
            mech["states"].append(clone)
            ci = len(mech["states"]) - 1
            calls = calls[:1] + [[ci, ["int", 0]], [0, ["int", 0]], [ci, rng.choice([None, ["int", 1], ["int", 2]])]] + calls[1:]
        if ec.oracle_calls(mech, [tuple(c) for c in calls], budget=4000) is None:
            continue
        cases.append({"kind": "fault", "mech": mech, "calls": calls, "pick": rng.randint(0, 10 ** 6),
                      "with_fault": (rng.random() < 0.85) and not bad_source, "base_exception": False, "exc_kind": rng.choice(ec.FAULT_KINDS),
                      "foreach": rng.random() < 0.4})
    return cases


def impl_run(case):
    from dyce import H
    from dyce.evaluation import explode
    calls = [tuple(c) for c in case["calls"]]
    # phase 1 (separate closure state, same interpreter): count the invocations of the first call
    _, ninv = ec.run_mech_impl(case["mech"], calls[:1], use_foreach=case.get("foreach", False))
    fault = (case["pick"] % ninv) if (case["with_fault"] and ninv > 0) else None
    answers, total_inv = ec.run_mech_impl(case["mech"], calls, fault=fault, base_exception=case.get("base_exception", False),
                                              exc_kind=case.get("exc_kind"), use_foreach=case.get("foreach", False))
    ex = explode(H({1: 1, 2: 1}), limit=2)
    sub = H(4).substitute(lambda h, o: h if o == 4 else o, lambda h, o: h)
    from common import hist_items
    return {"answers": answers, "fault": fault, "ninv_first": ninv,
            "explode_probe": hist_items(ex), "substitute_probe": hist_items(sub)}


def coq_check(case, r):
    if "answers" not in r:
        return "MISMATCH"
    exps = [_cans(a) for a in r["answers"]]
    if any(e is None for e in exps):
        return "MISMATCH"
    f = "None" if r["fault"] is None else f"(Some {r['fault']}%nat)"
    return f"chk_mech {ec.cmech(case['mech'])} {f} {ec.ccalls(case['calls'])} {clist(exps)}"


def coq_show(case):
    return None


def oracle(case):
    if C07._frac_limits(case) and C07._split_rolls_possible(case):
        return None
    o = ec.oracle_calls(case["mech"], [tuple(c) for c in case["calls"]])
    if o is None:
        return None
    return {"answers": [{"dist": ec.dist_json(a["dist"])} if "dist" in a else a for a in o]}


def agree(case, r, o):
    if "answers" not in r:
        return False
    oo = [{"dist": {Fraction(*k): Fraction(*v) for k, v in a["dist"]}} if "dist" in a else a for a in o["answers"]]
    a = r["answers"]
    if r["fault"] is not None:
        # the first call must surface the injected exception itself ...
        if a[0].get("exc") != "UserError" or a[0].get("which") != "fault":
            # ... unless the fault-free run of this call raises earlier on its own
            if "exc" not in oo[0]:
                return False
        first_ok = True
    else:
        first_ok = ec.agree_answers(a[:1], oo[:1])
    # ... and every later top-level evaluation behaves as in a fresh interpreter
    return (first_ok and ec.agree_answers(a[1:], oo[1:])
            and r["explode_probe"] == [[[1, 1], 4], [[3, 1], 2], [[5, 1], 1], [[6, 1], 1]]
            and r["substitute_probe"] == [[[1, 1], 5], [[2, 1], 5], [[3, 1], 5], [[4, 1], 1]])


def nontrivial(case, r):
    return r.get("fault") is not None and r.get("ninv_first", 0) >= 2


def case_class(case, r):
    f = r.get("fault")
    return "no-fault" if f is None else ("fault@0" if f == 0 else "fault@last" if f == r["ninv_first"] - 1 else "fault@mid")


UNITS_NAME = "callback_invocations_in_first_call"


def units(case, r):
    return r.get('ninv_first', 0)
