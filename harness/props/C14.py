"""C14 - evaluation limits and context never leak across calls, even after errors."""
from fractions import Fraction

from common import clist
import evalcommon as ec
import gens
import pools
from props.C06 import _cans
from props import C07

PID = "C14"
CODES = True
RULE = ("corpus first; then mechanics as in C06/C07 (recursive, nested, pool sources); a first top-level evaluation "
        "in which a marker exception is raised at callback invocation index i (i ranges over the invocations of the "
        "fault-free run, nested evaluations and pool-roll enumeration included), followed in the same interpreter by "
        "probe evaluations (default limit, explicit limits, a recursive mechanic, explode).  Checked: the very same "
        "exception object (user-defined subclasses of Exception, BaseException, RuntimeError, NotImplementedError, "
        "StopIteration, KeyError, OverflowError, OSError, MemoryError, ... and plain built-ins) reaches the caller; every probe answer equals the stateless oracle / the model started "
        "from a fresh context.  Non-trivial: the fault fires inside a nested evaluation or a multi-branch one.")
ASSUMPTIONS = [
    "thread-level behaviour of contextvars.ContextVar is not modelled (single-threaded evaluation)",
    "the interpreter stack limit is modelled by fuel and not exercised",
]


def gen_cases(rng, tier):
    n = 200 if tier == "quick" else 2500
    cases = []
    tries = 0
    while len(cases) < n and tries < n * 4:
        tries += 1
        acyclic = rng.random() < 0.3
        # a third of the mechanics have branches that bottom out the stack (RecursionError -> sentinel for that
        # branch only; no other branch, and no later evaluation, may be affected)
        mech = C07.gen_mech(rng, acyclic, recerr_p=rng.choice([0.04, 0.04, 0.3]), try_classes=("ValueError",))   # injected faults are never ValueErrors
        lim = rng.choice([None, ["int", 1], ["int", 2], ["int", 3], ["frac", 1, 4], ["frac", 1, 8]])
        probes = [[0, None], [0, ["int", 2]], [len(mech["states"]) - 1, rng.choice([None, ["int", 1], ["frac", 1, 4]])],
                  [rng.randrange(len(mech["states"])), ["int", 0]]]
        calls = [[0, lim]] + probes
        bad_source = rng.random() < 0.15
        if bad_source:
            # the aborted evaluation fails while ENUMERATING a source (a selection beyond the pool), at top level
            # or inside a nested evaluation; the exception reaches the caller and nothing is left behind
            bad = {"srcs": [{"pw": [[[gens.q(1), 1], [gens.q(2), 1]]] * 2, "which": [{"i": rng.choice([2, 5, -3])}]}],
                   "npos": rng.randint(0, 1), "sentinel": [[gens.q(300), 1]], "table": []}
            mech["states"].append(bad)
            bi = len(mech["states"]) - 1
            if rng.random() < 0.5 and mech["states"][0]["table"]:
                mech["states"][0]["table"][0][1] = ["call", bi, None]      # nested: reached from state 0's callback
                calls = [[0, ["int", 2]]] + probes
            else:
                calls = [[bi, lim]] + probes
        if rng.random() < 0.25 and not bad_source:
            # the same callback used again with another sentinel: limit 0 hands back the sentinel of THAT call
            import copy
            clone = copy.deepcopy(mech["states"][0])
            clone["sentinel"] = rng.choice([[[gens.q(400), 1]], [[gens.q(400), 2], [gens.q(401), 2]]])
            clone["cb_of"] = 0
            mech["states"].append(clone)
            ci = len(mech["states"]) - 1
            calls = calls[:1] + [[ci, ["int", 0]], [0, ["int", 0]], [ci, rng.choice([None, ["int", 1], ["int", 2]])]] + calls[1:]
        if ec.oracle_calls(mech, [tuple(c) for c in calls], budget=4000) is None:
            continue
        cases.append({"kind": "fault", "mech": mech, "calls": calls, "pick": rng.randint(0, 10 ** 6),
                      "with_fault": (rng.random() < 0.85) and not bad_source, "base_exception": False, "exc_kind": rng.choice(ec.FAULT_KINDS),
                      "foreach": rng.random() < 0.4})
    cases += _spelling_cases(rng, max(12, n // 12))
    cases += _pred_cases(rng, max(20, n // 8))
    return cases


# ---- explode() with a predicate that raises at a given invocation (outside the Coq model: predicates are pure there) ----

def _pred_cases(rng, n):
    out = []
    for _ in range(n):
        h = gens.hist(rng, max_faces=3, style=rng.choice(["unit", "pos", "small"]), frac_p=0.0, min_faces=2)
        faces = [o for o, _ in h]
        sub = [f for f in faces if rng.random() < 0.6] or faces[-1:]
        out.append({"kind": "explode_pred", "h": h, "sub": sub, "lim": rng.choice([0, 0, 1, 2, 2, 3]),
                    "fault": rng.choice([None, 0, 1, 2, 3, 4, 6, 9]), "fault_kind": rng.choice(["recursion", "recursion", "marker", "stopiteration"])})
    return out


class _PredMarker(Exception):
    pass


def _pred_impl(case):
    from dyce import H
    from dyce.evaluation import explode
    from common import hist_items
    h = H(gens.py_hist_dict(case["h"]))
    sub = [gens.py_outcome(o) for o in case["sub"]]
    n = {"calls": 0}
    raised = []

    def pred(r):
        i = n["calls"]
        n["calls"] += 1
        if case["fault"] is not None and i == case["fault"]:
            e = {"recursion": RecursionError("injected"), "marker": _PredMarker("injected"), "stopiteration": StopIteration("injected")}[case["fault_kind"]]
            raised.append(e)
            raise e
        return r.outcome in sub
    try:
        res = explode(h, pred, limit=case["lim"])
        return {"ok": hist_items(res), "calls": n["calls"]}
    except BaseException as e:  # noqa
        return {"exc": type(e).__name__, "same_object": bool(raised) and e is raised[-1], "calls": n["calls"]}


def _pred_oracle(case):
    items = [(Fraction(*o), c) for o, c in case["h"]]
    sub = {Fraction(*o) for o in case["sub"]}
    t = sum(c for _, c in items)
    sent = {o: Fraction(c, t) for o, c in items if c} if t else {}
    n = {"calls": 0}

    class Rec(Exception):
        pass

    class Mark(Exception):
        pass

    def ev(depth):
        if depth >= case["lim"]:
            return dict(sent)
        mix, wsum = {}, Fraction(0)
        for o, c in items:
            i = n["calls"]
            n["calls"] += 1
            try:
                if case["fault"] is not None and i == case["fault"]:
                    raise Rec() if case["fault_kind"] == "recursion" else Mark()
                d = {x + o: p for x, p in ev(depth + 1).items()} if o in sub else {o: Fraction(1)}
            except Rec:
                d = dict(sent)            # only this branch becomes the sentinel
            if not d or not t:
                continue
            p = Fraction(c, t)
            wsum += p
            for x, px in d.items():
                mix[x] = mix.get(x, 0) + p * px
        return {x: px / wsum for x, px in mix.items() if px} if wsum else {}
    try:
        d = ev(0)
        return {"dist": ec.dist_json(d), "calls": n["calls"]}
    except Mark:
        return {"exc": "StopIteration" if case["fault_kind"] == "stopiteration" else "_PredMarker", "calls": n["calls"]}


_C08_KINDS = ("explode", "substitute", "h_explode")


def _c08():
    from props import C08
    return C08


def _spelling_cases(rng, n):
    """the deprecated spellings H.explode / H.substitute and their pool versions P.explode / P.substitute with limits
    exactly on the boundary (0, False, 1) and with the illegal fractional 0: decided by the C08 machinery"""
    out = []
    for _ in range(n):
        h = gens.hist(rng, max_faces=3, style=rng.choice(["unit", "pos"]), frac_p=0.0, min_faces=2)
        md = rng.choice([["int", 0], ["int", 0], ["bool", False], ["int", 1], ["int", 2], None])
        pl = None
        if md is None:
            pl = rng.choice([["frac", 0, 1], ["float", 0, 1], ["frac", 1, 4]])
        via_pool = rng.random() < 0.7
        if rng.random() < 0.5:
            out.append({"kind": "h_explode", "h": h, "md": md, "pl": pl, "via_pool": via_pool})
        else:
            out.append({"kind": "substitute", "h": h, "table": [[h[-1][0], ["hist", [list(x) for x in h]]]],
                        "coalesce": rng.choice(["replace", "add"]), "md": md, "pl": pl, "via_pool": via_pool})
    for _ in range(max(4, n // 3)):
        m = rng.choice([5, 10, 10, 20, 11, 13])
        k = rng.choice([1, 2, 2, 3]) if m <= 11 else rng.choice([1, 2])
        hm = [[gens.q(j), 1] for j in range(1, m + 1)]
        lim = ["frac", 1, m ** k]
        if rng.random() < 0.5:
            out.append({"kind": "explode", "h": hm, "sub": None, "lim": lim, "inf": None})
        else:
            out.append({"kind": "h_explode", "h": hm, "md": None, "pl": lim, "via_pool": rng.random() < 0.3})
    return [c for c in out if _c08()._safe(c)]


def impl_run(case):
    if case.get("kind") == "explode_pred":
        return _pred_impl(case)
    if case.get("kind") in _C08_KINDS:
        return _c08().impl_run(case)
    from dyce import H
    from dyce.evaluation import explode
    calls = [tuple(c) for c in case["calls"]]
    # phase 1 (separate closure state, same interpreter): count the invocations of the first call
    _, ninv = ec.run_mech_impl(case["mech"], calls[:1], use_foreach=case.get("foreach", False))
    fault = (case["pick"] % ninv) if (case["with_fault"] and ninv > 0) else None
    answers, total_inv = ec.run_mech_impl(case["mech"], calls, fault=fault, base_exception=case.get("base_exception", False),
                                              exc_kind=case.get("exc_kind"), use_foreach=case.get("foreach", False))
    ex = explode(H({1: 1, 2: 1}), limit=2)
    sub = H(4).substitute(lambda h, o: h if o == 4 else o, lambda h, o: h)
    from common import hist_items
    return {"answers": answers, "fault": fault, "ninv_first": ninv,
            "explode_probe": hist_items(ex), "substitute_probe": hist_items(sub)}


def coq_check(case, r):
    if case.get("kind") == "explode_pred":
        return None
    if case.get("kind") in _C08_KINDS:
        return _c08().coq_check(case, r)
    if "answers" not in r:
        return "MISMATCH"
    exps = [_cans(a) for a in r["answers"]]
    if any(e is None for e in exps):
        return "MISMATCH"
    f = "None" if r["fault"] is None else f"(Some {r['fault']}%nat)"
    return f"chk_mech {ec.cmech(case['mech'])} {f} {ec.ccalls(case['calls'])} {clist(exps)}"


def coq_show(case):
    return None


def oracle(case):
    if case.get("kind") == "explode_pred":
        return _pred_oracle(case)
    if case.get("kind") in _C08_KINDS:
        return _c08().oracle(case)
    if C07._frac_limits(case) and C07._split_rolls_possible(case):
        return None
    o = ec.oracle_calls(case["mech"], [tuple(c) for c in case["calls"]])
    if o is None:
        return None
    return {"answers": [{"dist": ec.dist_json(a["dist"])} if "dist" in a else a for a in o]}


def agree(case, r, o):
    if case.get("kind") == "explode_pred":
        if r.get("calls") != o["calls"]:
            return False          # the predicate is consulted exactly where the re-roll process looks at a face
        if "exc" in o:
            return r.get("exc") == o["exc"] and r.get("same_object") is True
        return "ok" in r and ec.dist_of_items(r["ok"]) == {Fraction(*k): Fraction(*v) for k, v in o["dist"]}
    if case.get("kind") in _C08_KINDS:
        return _c08().agree(case, r, o)
    if "answers" not in r:
        return False
    oo = [{"dist": {Fraction(*k): Fraction(*v) for k, v in a["dist"]}} if "dist" in a else a for a in o["answers"]]
    a = r["answers"]
    if r["fault"] is not None:
        # the first call must surface the injected exception itself ...
        if a[0].get("exc") != "UserError" or a[0].get("which") != "fault":
            # ... unless the fault-free run of this call raises earlier on its own
            if "exc" not in oo[0]:
                return False
        first_ok = True
    else:
        first_ok = ec.agree_answers(a[:1], oo[:1])
    # ... and every later top-level evaluation behaves as in a fresh interpreter
    return (first_ok and ec.agree_answers(a[1:], oo[1:])
            and r["explode_probe"] == [[[1, 1], 4], [[3, 1], 2], [[5, 1], 1], [[6, 1], 1]]
            and r["substitute_probe"] == [[[1, 1], 5], [[2, 1], 5], [[3, 1], 5], [[4, 1], 1]])


def nontrivial(case, r):
    if case.get("kind") in _C08_KINDS or case.get("kind") == "explode_pred":
        return True
    return r.get("fault") is not None and r.get("ninv_first", 0) >= 2


def case_class(case, r):
    if case.get("kind") == "explode_pred":
        return "explode_pred:" + str(case["fault_kind"] if case["fault"] is not None else "nofault") + (":" + r["exc"] if "exc" in r else "")
    if case.get("kind") in _C08_KINDS:
        return "spelling:" + case["kind"] + (":pool" if case.get("via_pool") else "") + (":" + r["exc"] if "exc" in r else "")
    f = r.get("fault")
    return "no-fault" if f is None else ("fault@0" if f == 0 else "fault@last" if f == r["ninv_first"] - 1 else "fault@mid")


UNITS_NAME = "callback_invocations_in_first_call"


def units(case, r):
    return r.get('ninv_first', 0)
