"""C11 - roller trees produce exactly the distribution their expression denotes."""
from fractions import Fraction

from common import clist, cq, cres
import rollers as rl
import pools

PID = "C11"
RULE = ("corpus first; then roller trees up to depth 3 over leaves (scalars, weighted histograms incl. zero-count "
        "faces, homogeneous pools), value/pool/repeat/binary/unary/selection/filter/substitution nodes (REPLACE and "
        "APPEND, max_depth 0..2).  For each tree EVERY sequence of answers of the random source with positive weight "
        "is explored (exhaustive when at most 300 paths); per path the questions asked (population, weights) and "
        "the returned outcome values (tombstones included) are compared with the model's scripted run; the exact "
        "distribution induced by the path weights is compared with an independent enumeration of the expression.  "
        "Non-trivial: a tree with at least one inner node and two paths; each (tree, path) pair is one evaluation.")
ASSUMPTIONS = [
    "random.Random.choices is assumed to pick index i with probability weights[i]/sum(weights) (fair chooser)",
    "operators, predicates and expansion operators come from a finite vocabulary (the theorems quantify over arbitrary functions)",
    "SubstitutionRoller expansions are 'keep', 'replace by a fixed outcome', 're-roll the source roller'",
]


def gen_cases(rng, tier):
    n = 120 if tier == "quick" else 1500
    return [{"kind": "tree", "tree": rl.gen_small_tree(rng)} for _ in range(n)]


def impl_run(case):
    r = rl.build(case["tree"])

    def action():
        try:
            roll = r.roll()
            return {"ok": [None if o.value is None else __import__("common").qv(o.value) for o in roll],
                    "outcomes": [__import__("common").qv(v) for v in roll.outcomes()],
                    "total_ok": True}
        except (IndexError, ValueError, TypeError, ZeroDivisionError) as e:
            return {"exc": type(e).__name__}
    paths, exhaustive = rl.explore(action)
    return {"paths": paths, "exhaustive": exhaustive}


def _crollv(rv):
    return clist("None" if x is None else f"(Some {cq(x)})" for x in rv)


def coq_check(case, r):
    if "paths" not in r:
        return "MISMATCH"
    parts = []
    for p in r["paths"]:
        e = cres(p["result"], _crollv)
        if e is None:
            return "MISMATCH"
        parts.append(f"chk_roll t {rl.cscript(p['script'])} {rl.casks(p['asks'])} {e}")
    body = " && ".join(parts) if parts else "true"
    return f"(let t := {rl.ctree(case['tree'])} in {body})"


def coq_show(case):
    return f"run (roll_v VO Vzero Vadd {rl.ctree(case['tree'])}) []"


def oracle(case):
    d = rl.enum(case["tree"])
    agg, err = {}, {}
    for rv, p in d.items():
        if isinstance(rv, str):
            err[rv[4:]] = pools.fq(err.get(rv[4:], Fraction(0)) + p) if False else err.get(rv[4:], Fraction(0)) + p
            continue
        key = tuple(x for x in rv if x is not None)
        agg[key] = agg.get(key, 0) + p
    return {"dist": [[[pools.fq(x) for x in k], pools.fq(v)] for k, v in sorted(agg.items())],
            "errors": {k: pools.fq(v) for k, v in err.items()}}


def agree(case, r, o):
    if "paths" not in r:
        return False
    got, goterr = {}, {}
    for p in r["paths"]:
        if "ok" not in p["result"]:
            e = p["result"].get("exc")
            goterr[e] = goterr.get(e, 0) + Fraction(*p["prob"])
            continue
        live = [x for x in p["result"]["ok"] if x is not None]
        if live != p["result"]["outcomes"]:
            return False          # outcomes()/total() must report exactly the non-dropped values
        key = tuple(Fraction(*x) for x in live)
        got[key] = got.get(key, 0) + Fraction(*p["prob"])
    want = {tuple(Fraction(*x) for x in k): Fraction(*v) for k, v in o["dist"]}
    wanterr = {k: Fraction(*v) for k, v in o.get("errors", {}).items()}
    if r["exhaustive"]:
        return got == want and goterr == wanterr
    return all(k in want and v <= want[k] for k, v in got.items()) and all(k in wanterr for k in goterr)


def nontrivial(case, r):
    return case["tree"][0] not in ("val", "h", "p") and len(r.get("paths", [])) >= 2


def case_class(case, r):
    return case["tree"][0] + (":sampled" if not r.get("exhaustive", True) else "")


def extra_coverage():
    return {}


UNITS_NAME = "answer_paths_explored"


def units(case, r):
    return len(r.get('paths', []))
