"""C04 - repetition, pooling and totals obey the counting laws."""
from fractions import Fraction

from common import chist, clist, cq, cres, cz, cbool, hist_items
import gens
import pools

PID = "C04"
RULE = ("corpus first; then n@h (n in -2..12 quick, up to 40 thorough; counts up to 2**70), n@p, P(...) with permuted "
        "and nested arguments and zero-total dice, p.total, p.h(), (n@P(h)).h() vs n@h, (m+n)@h vs m@h + n@h, "
        "P(a,b)==P(b,a), indexing/iteration order.  Non-trivial: n >= 2 or at least two dice; distinct case JSON.")
ASSUMPTIONS = [
    "sum() starting from the int 0 is modelled as rmap(0, add) of the first histogram followed by left-folded map(add)",
    "list.sort with key tuple(h.items()) is modelled by insertion sort under the lexicographic order on item tuples",
]


def gen_cases(rng, tier):
    n = 300 if tier == "quick" else 4000
    cases = []
    for i in range(n):
        r = i % 6
        if r == 0 or r == 1:
            h = gens.hist(rng, max_faces=4, frac_p=0.1)
            hi = 12 if tier == "quick" else (40 if len(h) <= 3 else 14)
            m = rng.choice([-2, -1, 0, 0, 1, 1, 2, 2, 3, 4, 5, rng.randint(6, hi)])
            hn = None
            if rng.random() < 0.15:
                hn = rng.choice([-6, -4, -3, -2])
                h = [[gens.q(v), 1] for v in range(hn, 0)]
                m = rng.choice([1, 2, 3, 3, 5])
            if rng.random() < 0.12 and hn is None:
                # larger repetition counts (powers of two and their neighbours, multiples of 16) on small dice
                h = gens.hist(rng, max_faces=2, frac_p=0.0, style=rng.choice(["unit", "pos"]))
                m = rng.choice([15, 16, 17, 31, 32, 33, 48, 64])
                npcounts = rng.random() < 0.5
            c = {"kind": "matmul_h", "n": m, "h": h, "m2": rng.randint(1, 4)}
            if hn is not None:
                c["hn"] = hn
            if locals().get("npcounts"):
                c["ctyp"] = "npint64"     # counts given as NumPy integers are the ints they equal: h.total**n is exact
                npcounts = False
            if rng.random() < 0.3:
                # the repetition count in other numeric types: integral ones are accepted, non-integral rejected
                c["ntyp"] = rng.choice(["float", "Fraction", "bool", "Decimal"])
                if c["ntyp"] == "bool":
                    c["n"] = rng.choice([0, 1])
                elif rng.random() < 0.5:
                    c["nfrac"] = rng.choice([[1, 2], [5, 2], [-1, 2], [7, 3], [1, 3], [23999, 1000]])
            cases.append(c)
        elif r == 2:
            dice, _ = pools.gen_pool(rng, max_dice=3, max_faces=3)
            c = {"kind": "matmul_p", "n": rng.choice([-1, 0, 1, 2, 3]), "dice": dice}
            if rng.random() < 0.3:
                c["ntyp"] = rng.choice(["float", "Fraction", "Decimal"])
                if rng.random() < 0.5:
                    c["nfrac"] = rng.choice([[1, 2], [5, 2], [-1, 2], [7, 3], [23999, 1000]])
            cases.append(c)
        elif r == 3 or r == 4:
            # nested / permuted construction incl. zero-total and empty dice
            args = []
            for _ in range(rng.randint(0, 4)):
                if rng.random() < 0.4:
                    dice, _ = pools.gen_pool(rng, max_dice=3, max_faces=3)
                    args.append({"p": dice})
                elif rng.random() < 0.25:
                    nn = rng.choice([-4, -3, -2, -1, 2, 3])
                    args.append({"hn": nn, "h": [[gens.q(v), 1] for v in (range(nn, 0) if nn < 0 else range(1, nn + 1))]})
                else:
                    args.append({"h": gens.hist(rng, max_faces=3, frac_p=0.1)})
            perm = list(range(len(args)))
            rng.shuffle(perm)
            cases.append({"kind": "mkp", "args": args, "perm": perm})
        else:
            dice, _ = pools.gen_pool(rng, max_dice=4, max_faces=3)
            cases.append({"kind": "sum_h", "dice": dice})
    for _ in range(max(6, n // 40)):
        # numeric dice whose textual order differs from their numeric order (2 vs 10), next to a symbolic die
        nums = rng.sample([2, 10, 3, 20, 100, 9], rng.randint(2, 4))
        dice = [[[v, 1]] if rng.random() < 0.6 else [[v, 1], [v + 1, 2]] for v in nums]
        dice.insert(rng.randrange(len(dice) + 1), [[rng.choice(["x", "y"]), 1]])
        perms = []
        for _p in range(3):
            perm = list(range(len(dice)))
            rng.shuffle(perm)
            perms.append(perm)
        splits = []
        for _s in range(3):
            a = rng.randint(0, len(dice) - 1)
            b = rng.randint(a + 1, len(dice))
            splits.append([a, b])
        cases.append({"kind": "mkp_sym", "sym_dice": dice, "perms": perms, "splits": splits})
    return cases


def _args_py(args):
    from dyce import H
    out = []
    for a in args:
        if "p" in a:
            out.append(pools.py_pool(a["p"]))
        elif "hn" in a:
            out.append(H(a["hn"]))                       # the H(n) shorthand, n < 0 included: faces n..-1
        else:
            out.append(H(gens.py_hist_dict(a["h"])))
    return out


def _index_errors(p):
    """every integer outside [-len, len) is rejected"""
    n = len(p)
    for i in (n, n + 1, -n - 1, -n - 2, -2 * n, -2 * n - 1, 2 * n, 10 * n + 3):
        if -n <= i < n:
            continue
        try:
            p[i]
            return False
        except IndexError:
            pass
    return True


def _n_py(case):
    from decimal import Decimal
    n = case["n"]
    t = case.get("ntyp")
    if t is None:
        return n
    v = Fraction(*case["nfrac"]) if "nfrac" in case else Fraction(n)
    if t == "bool":
        return bool(n)
    if t == "float":
        return float(v)
    if t == "Decimal":
        return Decimal(v.numerator) / Decimal(v.denominator)
    return v


def _impl_sym(case):
    """pools that contain a die with unorderable (symbolic) outcomes: flattening, argument order and nesting still give
    ONE canonical order (outside the Coq model's outcome domain)"""
    from dyce import H, P
    from props.C10 import Sym

    def die(d):
        return H({(Sym(o) if isinstance(o, str) else o): c for o, c in d})
    dice = [die(d) for d in case["sym_dice"]]
    flat = P(*dice)
    ref = [repr(h) for h in flat]
    ok = True
    for perm in case["perms"]:
        ok = ok and [repr(h) for h in P(*[dice[i] for i in perm])] == ref
    for split in case["splits"]:
        nested = P(*dice[:split[0]], P(*dice[split[0]:split[1]]), *dice[split[1]:])
        ok = ok and [repr(h) for h in nested] == ref and nested == flat
        nested2 = P(P(*dice[:split[0]]), P(*dice[split[0]:]))
        ok = ok and [repr(h) for h in nested2] == ref
    return {"sym_ok": ok, "n": len(flat)}


def impl_run(case):
    from dyce import H, P
    k = case["kind"]
    if k == "mkp_sym":
        return _impl_sym(case)
    if "nfrac" in case:
        try:
            x = H(gens.py_hist_dict(case["h"])) if k == "matmul_h" else pools.py_pool(case["dice"])
            res = _n_py(case) @ x
            res2 = x @ _n_py(case)
            return {"accepted": repr(res)[:80]}
        except (ValueError, TypeError) as e:
            return {"exc": type(e).__name__}
    try:
        if k == "matmul_h":
            d = gens.py_hist_dict(case["h"])
            if case.get("hn") is not None:
                d = case["hn"]
            if case.get("ctyp") == "npint64" and not isinstance(d, int):
                import numpy
                d = {o: numpy.int64(c) for o, c in d.items()}
            h = H(d)
            res = _n_py(case) @ h
            extra = {}
            if case["n"] >= 1:
                m2 = case["m2"]
                extra["split_ok"] = list(((case["n"] + m2) @ h).items()) == list((res + m2 @ h).items())
                extra["pool_ok"] = (case["n"] @ P(h)).h() == res and (h.total == 0 or list((case["n"] @ P(h)).h().items()) == list(res.items()))
                extra["rmatmul_ok"] = list((h @ case["n"]).items()) == list(res.items())
            return {"ok": hist_items(res), "total": res.total, "htotal": h.total, **extra}
        if k == "matmul_p":
            p = pools.py_pool(case["dice"])
            res = _n_py(case) @ p
            return {"ok": [hist_items(h) for h in res], "total": res.total}
        if k == "mkp":
            args = _args_py(case["args"])
            p = P(*args)
            q = P(*[args[i] for i in case["perm"]])
            return {"ok": [hist_items(h) for h in p], "total": p.total, "perm_eq": p == q and not (p != q),
                    "perm_same_order": [hist_items(h) for h in q] == [hist_items(h) for h in p],
                    "index_ok": all(hist_items(p[i]) == hist_items(h) and hist_items(p[i - len(p)]) == hist_items(h)
                                    for i, h in enumerate(p)) and _index_errors(p), "len": len(p),
                    # a slice (any step) is the pool of the sliced dice: same canonical order as building it afresh
                    "slices_ok": all([hist_items(h) for h in p[sl]] == [hist_items(h) for h in P(*tuple(p)[sl])]
                                     and p[sl] == P(*tuple(p)[sl]) and p[sl].total == P(*tuple(p)[sl]).total
                                     for sl in (slice(None, None, -1), slice(None, None, 2), slice(None, None, -2), slice(1, None),
                                                slice(-1, 0, -1), slice(0, 0), slice(None, 1), slice(-2, None)))}
        if k == "sum_h":
            p = pools.py_pool(case["dice"])
            return {"ok": hist_items(p.h()), "total": p.total, "htotal": p.h().total}
    except (ValueError, TypeError, IndexError, ZeroDivisionError) as e:
        return {"exc": type(e).__name__}


def _cdice(ds):
    return clist(chist(h) for h in ds)


def _cargs(args):
    return clist((_cdice(a["p"]) if "p" in a else clist([chist(a["h"])])) for a in args)


def coq_check(case, r):
    k = case["kind"]
    if k == "mkp_sym":
        return None
    if "nfrac" in case:
        return None     # non-integral repetition count: decided by the oracle (rejected with TypeError)
    if "ok" not in r and "exc" not in r:
        return "MISMATCH"
    if k == "matmul_h":
        e = cres(r, chist)
        return "MISMATCH" if e is None else f"chk_hmatmul {cz(case['n'])} {chist(case['h'])} {e}"
    if k == "matmul_p":
        e = cres(r, _cdice)
        return "MISMATCH" if e is None else f"chk_pmatmul {cz(case['n'])} {_cdice(case['dice'])} {e}"
    if "exc" in r:
        return "MISMATCH"
    if k == "mkp":
        return f"chk_mkP_args {_cargs(case['args'])} {_cdice(r['ok'])} {cz(r['total'])}"
    if k == "sum_h":
        return f"chk_sum_h {_cdice(case['dice'])} {chist(r['ok'])}"


def coq_show(case):
    k = case["kind"]
    if k == "matmul_h":
        return f"hmatmul VO Vzero Vadd {cz(case['n'])} {chist(case['h'])}"
    if k == "matmul_p":
        return f"pmatmul VO {cz(case['n'])} (mkP VO {_cdice(case['dice'])})"
    if k == "mkp":
        return f"mkP_args VO {_cargs(case['args'])}"
    return f"sum_h VO Vzero Vadd (mkP VO {_cdice(case['dice'])})"


# ---- oracle -------------------------------------------------------------------------

def _conv(a, b):
    out = {}
    for x, cx in a.items():
        for y, cy in b.items():
            out[x + y] = out.get(x + y, 0) + cx * cy
    return out


def _items(d):
    return [[pools.fq(Fraction(k)), d[k]] for k in sorted(d)]


def _hd(h):
    return {Fraction(*o): c for o, c in h}


def _sortkey(h):
    return tuple((Fraction(*o), c) for o, c in h)


def _flatten(args):
    out = []
    for a in args:
        out.extend(a["p"] if "p" in a else [a["h"]])
    return sorted([h for h in out if sum(c for _, c in h) != 0], key=_sortkey)


def oracle(case):
    k = case["kind"]
    if k == "mkp_sym":
        return {"spec": "one canonical order whatever the argument order and nesting"}
    if "nfrac" in case:
        return {"exc": "TypeError"}
    if k == "matmul_h":
        if case["n"] < 0:
            return {"exc": "ValueError"}
        if case["n"] == 0:
            return {"ok": [], "total": 0}
        acc = _hd(case["h"])
        for _ in range(case["n"] - 1):
            acc = _conv(acc, _hd(case["h"]))
        return {"ok": _items(acc), "total": sum(c for _, c in case["h"]) ** case["n"]}
    if k == "matmul_p":
        if case["n"] < 0:
            return {"exc": "ValueError"}
        dice = _flatten([{"p": case["dice"]}]) * case["n"]
        dice = sorted(dice, key=_sortkey)
        t = 1
        for h in dice:
            t *= sum(c for _, c in h)
        return {"ok": dice, "total": t}
    if k == "mkp":
        dice = _flatten(case["args"])
        t = 1
        for h in dice:
            t *= sum(c for _, c in h)
        return {"ok": dice, "total": t}
    if k == "sum_h":
        dice = _flatten([{"p": case["dice"]}])
        if not dice:
            return {"ok": [], "total": 1}
        acc = _hd(dice[0])
        for d in dice[1:]:
            acc = _conv(acc, _hd(d))
        t = 1
        for h in dice:
            t *= sum(c for _, c in h)
        return {"ok": _items(acc), "total": t}


def agree(case, r, o):
    if case["kind"] == "mkp_sym":
        return bool(r.get("sym_ok"))
    if "exc" in o:
        return r.get("exc") == o["exc"]
    if "ok" not in r:
        return False
    k = case["kind"]
    if r["ok"] != o["ok"]:
        return False
    if k == "matmul_h":
        if r["total"] != o["total"] and case["n"] != 0:
            return False
        if r.get("htotal") != sum(c for _, c in case["h"]):
            return False
        return all(r.get(x, True) for x in ("split_ok", "pool_ok", "rmatmul_ok"))
    if k == "mkp":
        return r["total"] == o["total"] and r["perm_eq"] and r["perm_same_order"] and r["index_ok"] and r.get("slices_ok", True) and r["len"] == len(o["ok"])
    if k == "sum_h":
        return r["total"] == o["total"] and (not o["ok"] or r["htotal"] == o["total"])
    return r["total"] == o["total"]


def nontrivial(case, r):
    k = case["kind"]
    if k == "mkp_sym":
        return True
    if k == "matmul_h":
        return case["n"] >= 2 and len(case["h"]) >= 1
    if k == "matmul_p":
        return case["n"] >= 1 and len(case["dice"]) >= 1
    if k == "mkp":
        return len(case["args"]) >= 2
    return len(case["dice"]) >= 2


def case_class(case, r):
    k = case["kind"]
    if k == "matmul_h":
        n = case["n"]
        k += ":neg" if n < 0 else ":0" if n == 0 else ":1-5" if n <= 5 else ":6+"
    return k + (":" + r["exc"] if "exc" in r else "")
