"""C09 - closed-form counting shortcuts agree with enumeration."""
import itertools
import math
from fractions import Fraction

from common import chist, clist, cq, cres, cz, cnat, hist_items
import gens
import pools

PID = "C09"
RULE = ("corpus first; then histograms (0-5 faces, zero counts, weighted, Fraction outcomes) x n in 0..7 x interleaved "
        "call histories of (n, pos) on one shared object for order_stat_for_n_at_pos (all pos in [-n, n)), "
        "exactly_k_times_in_n for present / absent / zero-count faces, appearances_in_rolls over pools incl. "
        "proportional twins; the implementation is also compared with (n@P(h)).h(pos) and n@(h.eq(o)).  "
        "Non-trivial: n >= 2 and at least two faces (or two dice); distinct case JSON.")
ASSUMPTIONS = [
    "math.comb is modelled by Pascal's rule; the per-instance cache _order_stat_funcs_by_n by an association list",
]


def gen_cases(rng, tier):
    n = 300 if tier == "quick" else 4000
    cases = []
    for i in range(n):
        r = i % 5
        if r < 2:
            h = gens.hist(rng, max_faces=5, frac_p=0.1)
            qs = []
            for _ in range(rng.randint(1, 6)):
                nn = rng.randint(0, 6)
                if nn == 0:
                    qs.append([0, rng.choice([0, -1, 1])])
                else:
                    qs.append([nn, rng.randint(-nn, nn - 1)])
            if rng.random() < 0.5 and qs:
                qs.append(list(rng.choice(qs)))   # a repeated query
            cases.append({"kind": "order_stat", "h": h, "qs": qs})
        elif r == 2:
            h = gens.hist(rng, max_faces=5, frac_p=0.1)
            keys = [o for o, _ in h]
            o = rng.choice(keys) if keys and rng.random() < 0.75 else gens.outcome(rng)
            nn = rng.randint(0, 12 if tier == "quick" else 30)
            c = {"kind": "exactly", "h": h, "o": o, "n": nn, "k": rng.randint(0, nn)}
            if rng.random() < 0.3:
                # integral n and k given in another numeric type: accepted, and the answer is an exact Python int
                c["argtyp"] = rng.choice(["float", "Fraction", "npint8", "npint64", "bool"])
                if c["argtyp"] == "bool":
                    c["n"], c["k"] = 1, rng.choice([0, 1])
                if c["argtyp"] == "npint8" and rng.random() < 0.5:
                    c["h"] = [[gens.q(v), 1] for v in range(1, 21)]      # a d20: 19**n leaves the int8 / int64 range quickly
                    c["o"] = gens.q(3)
                    c["n"] = rng.choice([3, 5, 16, 20])
                    c["k"] = rng.choice([0, 1, 2])
            cases.append(c)
        else:
            dice, shape = pools.gen_pool(rng, max_dice=5, max_faces=4)
            allk = [o for d in dice for o, _ in d]
            o = rng.choice(allk) if allk and rng.random() < 0.8 else gens.outcome(rng)
            cases.append({"kind": "appearances", "dice": dice, "o": o, "shape": shape})
    return cases


def impl_run(case):
    from dyce import H, P
    k = case["kind"]
    try:
        if k == "order_stat":
            h = H(gens.py_hist_dict(case["h"]))
            out, cross = [], True
            for n, pos in case["qs"]:
                try:
                    r = h.order_stat_for_n_at_pos(n, pos)
                    out.append({"ok": hist_items(r)})
                    if n >= 1 and h.total > 0:
                        ref = (n @ P(h)).h(pos)
                        nzr = {o: c for o, c in r.items() if c}
                        if nzr != {o: c for o, c in ref.items() if c}:
                            cross = False
                except (ValueError, TypeError, IndexError, ZeroDivisionError) as e:
                    out.append({"exc": type(e).__name__})
            return {"answers": out, "cross_ok": cross}
        if k == "exactly":
            h = H(gens.py_hist_dict(case["h"]))
            o = gens.py_outcome(case["o"])
            conv = int
            if case.get("argtyp"):
                import numpy
                conv = {"float": float, "Fraction": Fraction, "npint8": numpy.int8, "npint64": numpy.int64, "bool": bool}[case["argtyp"]]
            v = h.exactly_k_times_in_n(o, conv(case["n"]), conv(case["k"]))
            if type(v) is not int:
                return {"ok": {"NONJSON": type(v).__name__, "repr": repr(v)[:60]}}
            ref = (case["n"] @ h.eq(o)).get(case["k"], 0) if case["n"] >= 1 else (1 if case["k"] == 0 else 0)
            return {"ok": v, "cross_ok": v == ref or (case["n"] == 0)}
        if k == "appearances":
            p = pools.py_pool(case["dice"])
            r = p.appearances_in_rolls(gens.py_outcome(case["o"]))
            return {"ok": [[int(kk), c] for kk, c in r.items()], "total": r.total, "ptotal": p.total, "n": len(p)}
    except (ValueError, TypeError, IndexError, ZeroDivisionError, AssertionError) as e:
        return {"exc": type(e).__name__}


def coq_check(case, r):
    k = case["kind"]
    if "exc" in r:
        return "MISMATCH"
    if k == "order_stat":
        exps = []
        for a in r["answers"]:
            e = cres(a, chist)
            if e is None:
                return "MISMATCH"
            exps.append(e)
        qs = clist(f"({cz(n)}, {cz(p)})" for n, p in case["qs"])
        return f"chk_order_stat {chist(case['h'])} {qs} {clist(exps)}"
    if k == "exactly":
        return f"chk_exactly {chist(case['h'])} {cq(case['o'])} {cnat(case['n'])} {cnat(case['k'])} {cz(r['ok'])}"
    if k == "appearances":
        exp = clist(f"({cz(kk)}, {cz(c)})" for kk, c in r["ok"])
        return f"chk_appearances {clist(chist(h) for h in case['dice'])} {cq(case['o'])} {exp}"


def coq_show(case):
    k = case["kind"]
    if k == "order_stat":
        return "os_run VO [] %s %s" % (chist(case["h"]), clist(f"({cz(n)}, {cz(p)})" for n, p in case["qs"]))
    if k == "exactly":
        return f"exactly_k VO {chist(case['h'])} {cq(case['o'])} {cnat(case['n'])} {cnat(case['k'])}"
    return f"appearances VO (mkP VO {clist(chist(h) for h in case['dice'])}) {cq(case['o'])}"


def oracle(case):
    k = case["kind"]
    if k == "order_stat":
        faces = [(Fraction(*o), c) for o, c in case["h"]]
        answers = []
        for n, pos in case["qs"]:
            if len(faces) ** max(n, 1) > 40000:
                return None
            agg = {o: 0 for o, _ in faces}
            if n >= 1:
                p2 = pos + n if pos < 0 else pos
                for combo in itertools.product(faces, repeat=n):
                    cnt = math.prod(c for _, c in combo)
                    roll = sorted(o for o, _ in combo)
                    if 0 <= p2 < n:
                        agg[roll[p2]] += cnt
            answers.append({"ok": [[pools.fq(o), agg[o]] for o in sorted(agg)]})
        return {"answers": answers}
    if k == "exactly":
        d = {Fraction(*o): c for o, c in case["h"]}
        c = d.get(Fraction(*case["o"]), 0)
        t = sum(d.values())
        n, kk = case["n"], case["k"]
        return {"ok": math.comb(n, kk) * c ** kk * (t - c) ** (n - kk)}
    if k == "appearances":
        if pools.brute_size(case["dice"]) > 40000:
            return None
        dice = pools.effective_dice(case["dice"])
        if not dice:
            return {"ok": []}
        o = Fraction(*case["o"])
        agg = {}
        for roll, cnt in pools.brute_rolls(case["dice"]):
            kk = sum(1 for x in roll if x == o)
            agg[kk] = agg.get(kk, 0) + cnt
        return {"ok": [[kk, agg[kk]] for kk in sorted(agg)]}


def agree(case, r, o):
    k = case["kind"]
    if "exc" in r:
        return False
    nz = lambda items: [[x, c] for x, c in items if c != 0]
    if k == "order_stat":
        if not r["cross_ok"] or len(r["answers"]) != len(o["answers"]):
            return False
        return all("ok" in a and nz(a["ok"]) == nz(b["ok"]) for a, b in zip(r["answers"], o["answers"]))
    if k == "exactly":
        return r["ok"] == o["ok"] and r["cross_ok"]
    return nz(r["ok"]) == nz(o["ok"]) and (r["n"] == 0 or r["total"] == r["ptotal"])


def nontrivial(case, r):
    k = case["kind"]
    if k == "order_stat":
        return len(case["h"]) >= 2 and any(n >= 2 for n, _ in case["qs"])
    if k == "exactly":
        return len(case["h"]) >= 2 and case["n"] >= 2
    return len(pools.effective_dice(case["dice"])) >= 2


def case_class(case, r):
    k = case["kind"]
    if k == "exactly":
        present = any(o == case["o"] for o, _ in case["h"])
        return f"exactly:{'present' if present else 'absent'}"
    if k == "appearances":
        return f"appearances:{case['shape']}"
    return k + (":exc" if "exc" in r else "")
