"""C17 - the NumPy-backed generator is a faithful, reproducible random.Random."""
import json

from common import clist, cz

PID = "C17"
RULE = ("corpus first; then (a) wrapper logic: an instance's NumPy generator is replaced by a recording proxy and "
        "getrandbits(k) for k in {0..17, 31..33, 63..65, 127, 1000, ...} / randbytes / random are checked against the "
        "model fed with the recorded bytes; (b) reproducibility, implementation against implementation: random "
        "sequences of calls to the public sampling methods (random, getrandbits, randbytes, randrange, randint, "
        "choice, choices, shuffle, sample, uniform, gauss, normalvariate, triangular, ...) with a snapshot "
        "(getstate) at every position, alike-seeded twins, re-seeding, interleaved instances, seeds of every kind "
        "(small/huge ints, sequences, None), for the NumPy-backed generator and the stdlib control; (c) the default "
        "of dyce.rng.RNG.  Non-trivial: a sequence with at least one gauss call and one snapshot in the middle.")
ASSUMPTIONS = [
    "NumPy's Generator/PCG64DXSM and the sampling algorithms inherited from random.Random are oracles, not modelled",
    "only the wrapper (getrandbits trimming, seed/getstate/setstate incl. gauss_next) is proved",
]

METHODS = ["random", "getrandbits", "randbytes", "randrange", "randint", "choice", "choices", "shuffle", "sample",
           "uniform", "gauss", "normalvariate", "triangular", "expovariate", "betavariate"]


def gen_ops(rng, n):
    ops = []
    for _ in range(n):
        m = rng.choice(METHODS + ["gauss", "gauss", "getrandbits"])
        if m == "getrandbits":
            ops.append([m, rng.choice([0, 1, 5, 8, 9, 31, 32, 33, 64, 100])])
        elif m == "randbytes":
            ops.append([m, rng.choice([0, 1, 3, 8])])
        elif m == "randrange":
            ops.append([m, rng.choice([1, 6, 1000, 2 ** 70])])
        elif m == "randint":
            ops.append([m, -3, rng.choice([3, 100])])
        elif m in ("choice", "shuffle"):
            ops.append([m, rng.randint(1, 6)])
        elif m == "choices":
            ops.append([m, rng.randint(1, 4), rng.randint(1, 3)])
        elif m == "sample":
            ops.append([m, 6, rng.randint(0, 4)])
        else:
            ops.append([m])
    return ops


def gen_cases(rng, tier):
    n = 60 if tier == "quick" else 600
    cases = []
    ks = list(range(0, 18)) + [31, 32, 33, 63, 64, 65, 127, 128, 1000, -1, -5]
    cases.append({"kind": "bits", "ks": ks, "seed": 7})
    cases.append({"kind": "bits", "ks": [rng.choice(ks) for _ in range(20)], "seed": rng.randint(0, 10 ** 6)})
    cases.append({"kind": "default"})
    for i in range(n):
        seed = rng.choice([0, 1, 42, 2 ** 64 + 5, 2 ** 200 + 3, [1, 2, 3], [2 ** 40, 7], None])
        impl = rng.choice(["numpy", "numpy", "numpy", "stdlib"])
        if impl == "stdlib" and isinstance(seed, list):
            seed = 99
        cases.append({"kind": "stream", "impl": impl, "seed": seed, "ops": gen_ops(rng, rng.randint(3, 14)),
                      "other_ops": gen_ops(rng, rng.randint(1, 5))})
    return cases


def _do(r, op):
    m = op[0]
    if m == "getrandbits":
        return r.getrandbits(op[1])
    if m == "randbytes":
        return r.randbytes(op[1]).hex()
    if m == "randrange":
        return r.randrange(op[1])
    if m == "randint":
        return r.randint(op[1], op[2])
    if m == "choice":
        return r.choice(list(range(op[1])))
    if m == "choices":
        return r.choices(list(range(op[1])), k=op[2])
    if m == "shuffle":
        l = list(range(op[1]))
        r.shuffle(l)
        return l
    if m == "sample":
        return r.sample(list(range(op[1])), op[2])
    if m == "uniform":
        return r.uniform(-1, 3).hex()
    if m == "gauss":
        return r.gauss(0, 1).hex()
    if m == "normalvariate":
        return r.normalvariate(0, 1).hex()
    if m == "triangular":
        return r.triangular().hex()
    if m == "expovariate":
        return r.expovariate(1.5).hex()
    if m == "betavariate":
        return r.betavariate(2, 3).hex()
    return r.random().hex()


def impl_run(case):
    import random
    import dyce.rng as rng
    k = case["kind"]
    if k == "default":
        import numpy  # noqa
        return {"default_type": type(rng.RNG).__name__, "is_default": rng.RNG is rng.DEFAULT_RNG,
                "is_random": isinstance(rng.RNG, random.Random)}
    if k == "bits":
        r = rng.PCG64DXSMRandom(case["seed"])
        real = r._generator
        rec = []

        class Proxy:
            def bytes(self, n):
                b = real.bytes(n)
                rec.append([n, list(b)])
                return b

            def random(self):
                return real.random()

            def __getattr__(self, name):
                return getattr(real, name)
        r._generator = Proxy()
        out = []
        for kk in case["ks"]:
            del rec[:]
            try:
                v = r.getrandbits(kk)
                out.append({"k": kk, "v": v, "calls": [list(x) for x in rec]})
            except ValueError:
                out.append({"k": kk, "exc": "ValueError", "calls": [list(x) for x in rec]})
        rb = [len(r.randbytes(n)) == n for n in (0, 1, 7, 64)]
        rb += [len(r.randbytes(n)) == n for _ in range(1500) for n in (1, 2, 5)]     # leading zero bytes happen once in 256
        rb += [len(r.randbytes(n)) == n for n in (65535, 65536, 65537, 100000, 131072, 200001)]
        rb += [0 <= r.getrandbits(k) < 2 ** k for k in (524288, 524289, 800000)]
        rnd = [0.0 <= r.random() < 1.0 for _ in range(50)]
        return {"bits": out, "randbytes_ok": all(rb), "random_ok": all(rnd)}
    mk = (lambda s: rng.PCG64DXSMRandom(s)) if case["impl"] == "numpy" else (lambda s: random.Random(s))
    seed = case["seed"]
    ops = case["ops"]
    res = {}
    if seed is not None:
        a, b = mk(seed), mk(seed)
        sa = [_do(a, o) for o in ops]
        sb = [_do(b, o) for o in ops]
        res["twins_equal"] = sa == sb
        # re-seeding an instance that has been used restarts the stream
        c = mk(12345)
        for o in case["other_ops"]:
            _do(c, o)
        c.seed(seed)
        res["reseed_equal"] = [_do(c, o) for o in ops] == sa
        # interleaving with another instance does not disturb the stream
        d, e = mk(seed), mk(777)
        sd = []
        for i, o in enumerate(ops):
            sd.append(_do(d, o))
            _do(e, case["other_ops"][i % len(case["other_ops"])])
        res["independent"] = sd == sa
    # snapshots at every point
    g = mk(seed if seed is not None else 4242)
    ok = True
    for i in range(len(ops) + 1):
        g2 = mk(seed if seed is not None else 4242)
        for o in ops[:i]:
            _do(g2, o)
        st = g2.getstate()
        cont = [_do(g2, o) for o in ops[i:] + case["other_ops"]]
        for o in case["other_ops"]:
            _do(g2, o)
        g2.setstate(st)
        replay = [_do(g2, o) for o in ops[i:] + case["other_ops"]]
        h = mk(5)             # restoring into a different instance also replays
        h.setstate(st)
        replay2 = [_do(h, o) for o in ops[i:] + case["other_ops"]]
        if cont != replay or cont != replay2:
            ok = False
            res["snapshot_failed_at"] = i
            break
    res["snapshots_ok"] = ok
    # instances that were NOT given a seed (entropy-seeded, or re-seeded with None) are just as independent:
    # another unseeded instance - or the module's default generator - drawing in between disturbs neither
    # the state nor a snapshot/replay
    u1, u2 = mk(None), mk(None)
    u3 = mk(31337)
    u3.seed(None)
    others = [u2, u3] + ([rng.RNG] if case["impl"] == "numpy" else [])
    st = u1.getstate()
    for i, o in enumerate(case["other_ops"] * 2):
        _do(others[i % len(others)], o)
    same_state = repr(u1.getstate()) == repr(st)
    cont = [_do(u1, o) for o in ops]
    u1.setstate(st)
    replay = []
    for i, o in enumerate(ops):
        replay.append(_do(u1, o))
        _do(others[i % len(others)], case["other_ops"][i % len(case["other_ops"])])
    res["unseeded_independent"] = same_state and replay == cont
    # a snapshot taken right after re-seeding in place (and right after another snapshot) is the snapshot of the NEW stream
    for pre in ([], ops[:1], ops[:2]):
        w = mk(777)
        for o in pre:
            _do(w, o)
        w.getstate()
        w.seed(4242)
        snap = w.getstate()
        fresh = mk(4242)
        want = [_do(fresh, o) for o in ops]
        v = mk(5)
        v.setstate(snap)
        import copy as _copy
        w2 = _copy.copy(w) if hasattr(w, "__copy__") or True else w
        if [_do(v, o) for o in ops] != want or [_do(w, o) for o in ops] != want:
            res["snapshots_ok"] = False
            res["snapshot_failed_at"] = "after-reseed"
    return res


def coq_check(case, r):
    if case["kind"] != "bits":
        return "true"
    parts = []
    for b in r.get("bits", []):
        if "exc" in b:
            parts.append("true" if (b["k"] < 0 and not b["calls"]) else "false")
            continue
        if b["k"] < 0 or len(b["calls"]) != 1:
            parts.append("false")
            continue
        n, bs = b["calls"][0]
        parts.append(f"chk_bits {cz(b['k'])} {clist(cz(x) for x in bs)} {cz(b['v'])}")
    return " && ".join(parts) if parts else "true"


def coq_show(case):
    return None


def oracle(case):
    return {"spec": "all reproducibility flags true"}


def agree(case, r, o):
    k = case["kind"]
    if "exc" in r:
        return False
    if k == "default":
        return r["default_type"] == "PCG64DXSMRandom" and r["is_default"] and r["is_random"]
    if k == "bits":
        for b in r["bits"]:
            if b["k"] < 0:
                if b.get("exc") != "ValueError":
                    return False
            elif "v" not in b or not (0 <= b["v"] < 2 ** b["k"]):
                return False
        return r["randbytes_ok"] and r["random_ok"]
    return all(r.get(x, True) for x in ("twins_equal", "reseed_equal", "independent", "snapshots_ok", "unseeded_independent"))


def nontrivial(case, r):
    return case["kind"] == "bits" or (case["kind"] == "stream" and any(o[0] == "gauss" for o in case["ops"]) and len(case["ops"]) >= 3)


def case_class(case, r):
    if case["kind"] == "stream":
        s = case["seed"]
        return f"stream:{case['impl']}:" + ("none" if s is None else "seq" if isinstance(s, list) else "int")
    return case["kind"]
