"""C13 - results never depend on what was computed earlier (cache transparency)."""
import concurrent.futures as cf
import json
import subprocess
from fractions import Fraction

import common
import gens
import pools
from common import chist, clist, cq, cres

PID = "C13"
RULE = ("corpus first; then histories of 2-6 queries (selection sums, roll enumeration, order statistics - also "
        "through an H(h) alias -, appearances, ==/!=/hash, lowest_terms) over families of objects that collide under "
        "== and hash: scaled copies, zero-count padding, representation twins (1 / 1.0 / Fraction(1) / True).  Each "
        "history runs warm in ONE fresh interpreter and every query of it runs cold in its OWN fresh interpreter; "
        "answers must be identical including outcome types and positive counts; selection sums are also compared "
        "with the (cache-free) proved model.  Non-trivial: a history in which two different objects compare equal.")
ASSUMPTIONS = [
    "functools.cache is modelled as a finite map on the key function (Model/Memo.v); interpreter start-up state is 'cold'",
]

TYPES = ["int", "float", "Fraction", "bool"]


def typed(h, typ):
    out = []
    for o, c in h:
        t = typ
        if o[1] != 1:
            t = "Fraction"
        elif typ == "bool" and o[0] not in (0, 1):
            t = "int"
        out.append([[t, o[0], o[1]], c])
    return out


def family(rng):
    """colliding variants of one base histogram"""
    base = gens.hist(rng, max_faces=3, style=rng.choice(["unit", "pos"]), frac_p=0.0, min_faces=2)
    if rng.random() < 0.4:
        base = [[gens.q(0), 1], [gens.q(1), rng.choice([1, 2])]]
    fam = [typed(base, "int")]
    k = rng.choice([2, 3])
    fam.append(typed([[o, c * k] for o, c in base], "int"))
    have = {tuple(o) for o, _ in base}
    pad = [o for o in (gens.q(v) for v in (-1, 0, 1, 2, 9)) if tuple(o) not in have][:rng.randint(1, 2)]
    padded = sorted(base + [[o, 0] for o in pad], key=lambda oc: Fraction(*oc[0]))
    fam.append(typed(padded, "int"))
    fam.append(typed(base, rng.choice(["float", "Fraction", "bool"])))
    if rng.random() < 0.5:
        # UNEQUAL histograms whose items hash alike in CPython (hash(-1) == hash(-2); hash(x) == hash(x + 2**61 - 1)):
        # a digest of the key is not the key
        c = [rng.choice([1, 1, 2]) for _ in range(3)]
        if rng.random() < 0.5:
            a, b = [-1, 0, 1], [-2, 0, 1]
        else:
            m = 2 ** 61 - 1
            a, b = [0, 1, 3], [m, m + 1, m + 3]
        tw = [typed([[gens.q(o), k] for o, k in zip(x, c)], "int") for x in (a, b)]
        if rng.random() < 0.5:
            tw.reverse()
        if a[0] == 0 and a[1] == 1 and len(a) == 3 and a[2] == 3:
            # 2**61-sized outcomes do not survive float arithmetic: keep this family exact
            fam = [[[["Fraction" if o[0] == "float" else o[0], o[1], o[2]], c] for o, c in member] for member in fam]
        fam = fam[:2] + tw + fam[2:]
    return fam


def gen_query(rng, fam):
    k = rng.choice(["h", "h", "h", "rwc", "order", "order_alias", "app", "eq", "lowest"])
    h = rng.choice(fam)
    if k in ("h", "rwc", "app"):
        n = rng.randint(2, 3)
        dice = [h] * n
        if rng.random() < 0.25:
            dice = [h] * (n - 1) + [rng.choice(fam)]
        q = {"q": k, "dice": dice}
        if k == "app":
            q["o"] = h[0][0]
        else:
            q["which"] = rng.choice([[{"i": 0}], [{"i": -1}], [{"s": [None, n - 1, None]}], [{"s": [1, None, None]}], [{"i": 1}]])
        return q
    if k == "order":
        n = rng.randint(1, 3)
        return {"q": k, "h": h, "n": n, "pos": rng.randint(-n, n - 1)}
    if k == "order_alias":
        n = rng.randint(1, 3)
        return {"q": k, "h": h, "n0": rng.randint(1, 3), "n": n, "pos": rng.randint(-n, n - 1)}
    if k == "eq":
        return {"q": k, "a": h, "b": rng.choice(fam)}
    return {"q": k, "a": h, "twice": rng.random() < 0.5}


def gen_shared_query(rng, objs):
    """queries over a population of objects that lives as long as the history (per-instance caches included)"""
    refs = [{"ref": i} for i in range(len(objs))]
    k = rng.choice(["h", "h", "rwc", "order", "app", "eq", "eq", "hasheq", "setlen", "dictget", "homog", "lowest", "lowest", "items",
                    "umap_lowest", "umap_lowest"])
    a = rng.choice(refs)
    if k in ("h", "rwc", "app"):
        n = rng.randint(2, 3)
        dice = [a] * n if rng.random() < 0.6 else [a] * (n - 1) + [rng.choice(refs)]
        q = {"q": k, "dice": dice}
        if k == "app":
            q["o"] = objs[a["ref"]][0][0]
        else:
            q["which"] = rng.choice([[{"i": 0}], [{"i": -1}], [{"s": [None, n - 1, None]}], [{"s": [1, None, None]}], [{"i": 1}]])
        return q
    if k == "order":
        n = rng.randint(0, 3)
        return {"q": k, "h": a, "n": n, "pos": rng.randint(-n, n - 1) if n else 0}
    if k in ("eq", "hasheq"):
        return {"q": k, "a": a, "b": rng.choice(refs)}
    if k == "umap_lowest":
        return {"q": k, "a": a, "f": rng.choice(["abs", "abs", "even", "half", "neg"])}
    if k in ("setlen", "homog"):
        return {"q": k, "objs": [rng.choice(refs) for _ in range(rng.randint(2, 4))]}
    if k == "dictget":
        return {"q": k, "objs": [rng.choice(refs) for _ in range(rng.randint(1, 3))], "probe": [rng.choice(refs) for _ in range(2)]}
    return {"q": k, "a": a}


def _with_echo(rng, qs, members):
    """the SAME pool question asked again of another member of the family (same n, same selection)"""
    import copy
    out = []
    for q in qs:
        if q["q"] in ("h", "rwc") and rng.random() < 0.35:
            # first an abandoned enumeration of the same (or a larger) pool from the same side
            pk = copy.deepcopy(q)
            pk["q"] = "rwc_peek"
            pk["take"] = rng.choice([1, 1, 2, 3])
            if rng.random() < 0.4:
                pk["dice"] = pk["dice"] + pk["dice"][:1]
            out.append(pk)
        out.append(q)
        if q["q"] in ("h", "rwc") and rng.random() < 0.6:
            other = rng.choice(members)
            e = copy.deepcopy(q)
            e["dice"] = [other for _ in q["dice"]]
            out.append(e)
    return out


def gen_cases(rng, tier):
    n = 40 if tier == "quick" else 400
    cases = []
    for _ in range(n):
        fam = family(rng)
        qs = [gen_query(rng, fam) for _ in range(rng.randint(2, 6))]
        qs = _with_echo(rng, qs, fam)
        if rng.random() < 0.4:
            # the same order statistic asked of one short-lived object after another (each dies before the next is
            # built, so addresses get reused): members of the family and an unrelated histogram
            n0 = rng.randint(1, 3)
            pos0 = rng.randint(-n0, n0 - 1)
            other = typed(gens.hist(rng, max_faces=3, style="pos", frac_p=0.0, min_faces=2), "int")
            members = list(fam) + [other]
            rng.shuffle(members)
            qs += [{"q": "order", "h": m, "n": n0, "pos": pos0} for m in members]
        cases.append({"kind": "history", "queries": qs})
    for _ in range(n):
        objs = family(rng)
        if rng.random() < 0.3:
            objs = objs + family(rng)[:2]
        rng.shuffle(objs)
        qs = [gen_shared_query(rng, objs) for _ in range(rng.randint(2, 7))]
        if rng.random() < 0.3:
            # a sweep of n upwards on ONE object, starting at the n == 0 boundary
            a = {"ref": rng.randrange(len(objs))}
            n0 = rng.choice([0, 0, 1])
            sweep = [{"q": "order", "h": a, "n": n, "pos": rng.randint(-n, n - 1) if n else 0} for n in range(n0, n0 + rng.randint(2, 4))]
            if len(sweep) >= 2 and rng.random() < 0.7:
                # ... and back: an n asked before, asked again after other n were built on the same object
                back = dict(sweep[0] if sweep[0]["n"] else sweep[1])
                back["pos"] = rng.randint(-back["n"], back["n"] - 1) if back["n"] else 0
                sweep.append(back)
            j = rng.randrange(len(qs) + 1)
            qs[j:j] = sweep
        qs = _with_echo(rng, qs, [{"ref": i} for i in range(len(objs))])
        extra = []
        for q in qs:
            extra.append(q)
            if q["q"] == "order" and q["n"] >= 2 and rng.random() < 0.7:
                # the pool of n copies of the object whose order statistics were just computed, one position - in range,
                # and just past either end (IndexError)
                for i in rng.sample([0, -1, q["n"] - 1, q["n"], -q["n"] - 1], 2):
                    extra.append({"q": "h", "dice": [q["h"]] * q["n"], "which": [{"i": i}]})
        if rng.random() < 0.4:
            a = {"ref": rng.randrange(len(objs))}
            o = objs[a["ref"]][0][0]
            sizes = rng.choice([[4, 2], [3, 1], [4, 3, 2], [2, 4, 2]])
            extra += [{"q": "app", "dice": [a] * n_, "o": o} for n_ in sizes]
        cases.append({"kind": "shared", "objects": objs, "queries": extra})
    return cases


def _run(queries, objects=None):
    if objects is not None:
        queries = {"objects": objects, "queries": queries}
    p = subprocess.run([common.PY, str(common.VERIF / "harness" / "c13_runner.py")], input=json.dumps(queries),
                       capture_output=True, text=True, timeout=600, env=common.impl_env())
    if p.returncode != 0:
        return [{"exc": "RunnerFailed", "msg": p.stderr[-300:]}] * len(queries["queries"] if isinstance(queries, dict) else queries)
    return json.loads(p.stdout)


def run_impl_custom(cases):
    """warm: one interpreter per history; cold: one interpreter per distinct query"""
    distinct = {}

    def key(c, q):
        return json.dumps([c.get("objects"), q], sort_keys=True)
    for c in cases:
        for q in c["queries"]:
            distinct.setdefault(key(c, q), (q, c.get("objects")))
    with cf.ThreadPoolExecutor(max_workers=14) as ex:
        warm = list(ex.map(lambda c: _run(c["queries"], c.get("objects")), cases))
        keys = list(distinct)
        cold_list = list(ex.map(lambda k: _run([distinct[k][0]], distinct[k][1])[0], keys))
    cold = dict(zip(keys, cold_list))
    out = []
    for c, w in zip(cases, warm):
        out.append({"warm": w, "cold": [cold[key(c, q)] for q in c["queries"]]})
    global _STARTS
    _STARTS = len(cases) + len(keys)
    return out, None


_STARTS = 0


def extra_coverage():
    return {"interpreter_starts": _STARTS}


def impl_run(case):     # used by shrinking / replay: warm and cold for one history
    return run_impl_custom([case])[0][0]


def _untyped_hist(items):
    return [[[o[1], o[2]], c] for o, c in items]


def coq_check(case, r):
    """selection sums of the warm run against the cache-free model (values only)"""
    parts = []
    for q, a in zip(case["queries"], r["warm"]):
        if q["q"] == "h" and "ok" in a:
            dice = [_untyped_hist(case["objects"][d["ref"]] if isinstance(d, dict) else d) for d in q["dice"]]
            exp = f"(Ok {chist(_untyped_hist(a['ok']))})"
            parts.append(f"chk_p_h {pools.cpool(dice)} {pools.csel(q['which'])} {exp}")
    return " && ".join(parts) if parts else "true"


def coq_show(case):
    return None


def oracle(case):
    return {"spec": "every warm answer equals the cold answer of the same query"}


def _obj(case, x):
    return case["objects"][x["ref"]] if isinstance(x, dict) else x


def _canon(items):
    """what == and hash look at: positive counts in lowest terms, outcomes by value"""
    from math import gcd
    pos = [(Fraction(o[1], o[2]), c) for o, c in items if c > 0]
    g = 0
    for _, c in pos:
        g = gcd(g, c)
    return tuple(sorted((v, c // (g or 1)) for v, c in pos))


def _expected(case, q):
    """answers that follow from the definition of histogram equality alone (None: no such expectation)"""
    from math import gcd
    k = q["q"]
    if k == "eq":
        e = _canon(_obj(case, q["a"])) == _canon(_obj(case, q["b"]))
        return [e, not e, True] if e else None
    if k == "hasheq":
        return True if _canon(_obj(case, q["a"])) == _canon(_obj(case, q["b"])) else None
    if k == "setlen":
        return len({_canon(_obj(case, x)) for x in q["objs"]})
    if k == "homog":
        return len({_canon(_obj(case, x)) for x in q["objs"]}) <= 1
    if k == "dictget":
        cs = [_canon(_obj(case, x)) for x in q["objs"]]
        return [max([i for i, c in enumerate(cs) if c == _canon(_obj(case, x))], default=-1) for x in q["probe"]]
    if k == "items":
        return [[list(o), c] for o, c in _obj(case, q["a"])]
    if k == "umap_lowest":
        return "UMAP"
    if k == "lowest":
        items = _obj(case, q["a"])
        g = 0
        for _, c in items:
            g = gcd(g, c)
        return [[list(o), c // (g or 1)] for o, c in items if c > 0]     # same outcomes, of the same types
    return None


def _oob(case, q):
    """a pool question with an integer position outside [-n, n): IndexError is the documented answer"""
    if q["q"] not in ("h", "rwc"):
        return False
    n = len([d for d in q["dice"] if sum(c for _, c in _obj(case, d)) != 0])
    return any("i" in w and not (-n <= w["i"] < n) for w in q.get("which") or [])


def agree(case, r, o):
    if r["warm"] != r["cold"]:
        return False
    for q, a in zip(case["queries"], r["cold"]):
        if ("exc" in a) != _oob(case, q) or ("exc" in a and a["exc"] != "IndexError"):
            return False
    for q, a in zip(case["queries"], r["cold"]):
        if "exc" in a:
            continue
        e = _expected(case, q)
        if e == "UMAP":
            if a["ok"][1:] != [1, True, True, 1]:
                return False
            continue
        if e is not None and q["q"] == "eq" and a["ok"][:2] != e[:2]:
            return False
        if e is not None and a["ok"] != e and q["q"] != "eq":
            return False
        if e is not None and q["q"] == "eq" and a["ok"] != e:
            return False
    return True


def nontrivial(case, r):
    objs = set()
    for q in case["queries"]:
        for key in ("h", "a", "b"):
            if key in q:
                objs.add(json.dumps(q[key]))
        for d in q.get("dice", []):
            objs.add(json.dumps(d))
    return len(objs) >= 2


def case_class(case, r):
    return "len%d" % len(case["queries"]) + ("" if r["warm"] == r["cold"] else ":DIFF")


def shrink_candidates(case):
    import copy
    qs = case["queries"]
    for i in range(len(qs)):
        if len(qs) > 1:
            c = copy.deepcopy(case)
            del c["queries"][i]
            yield c


UNITS_NAME = "queries_run_warm_and_cold"


def units(case, r):
    return len(case['queries'])
