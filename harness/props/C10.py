"""C10 - H.roll and P.roll sample exactly the encoded distribution."""
import json
from fractions import Fraction

from common import chist, clist, cq, cres, qv
import gens
import pools
import rollers as rl

PID = "C10"
RULE = ("corpus first; then histograms (zero-count faces, weighted, empty, zero-total) and pools (homogeneous, mixed, "
        "up to 4 dice) with EVERY sequence of positive-weight answers of the random source explored (exhaustive up "
        "to 300 paths): per path the questions asked (population, weights, k) and the value returned are compared "
        "with the model's scripted run; the exact distribution induced by the library's own weights is compared "
        "with count/total and with the aggregated rolls_with_counts; the generator is installed after import and "
        "swapped between calls; two equally seeded generators must reproduce.  Non-trivial: at least two paths.")
ASSUMPTIONS = [
    "random.Random.choices is assumed to pick index i with probability weights[i]/sum(weights) (fair chooser)",
]


def gen_cases(rng, tier):
    n = 200 if tier == "quick" else 2500
    cases = []
    for i in range(n):
        if i % 2 == 0:
            c = {"kind": "h", "h": gens.hist(rng, max_faces=5, frac_p=0.1)}
            if rng.random() < 0.3:
                # built from bare outcomes mixed with pairs: the stored order need not be ascending; faces and
                # weights handed to the chooser must still belong together
                c["form"] = "mixed"
            cases.append(c)
        else:
            dice, shape = pools.gen_pool(rng, max_dice=4, max_faces=3)
            cases.append({"kind": "p", "dice": dice, "shape": shape})
    for i in range(max(4, n // 25)):
        # symbolic (unorderable) outcomes among numbers: some rolls sort, some do not
        nd = rng.randint(2, 3)
        dice = []
        for _ in range(nd):
            faces = rng.sample([1, 2, 3, "x", "y"], rng.randint(1, 3))
            dice.append([[f, rng.choice([1, 1, 2])] for f in faces])
        if not any(isinstance(f, str) for d in dice for f, _ in d):
            dice[0].append(["x", 1])
        cases.append({"kind": "p_sym", "sym_dice": dice})
    return cases


class Sym:
    """an outcome that cannot be ordered against numbers or other symbols (like a sympy symbol)"""

    def __init__(self, name):
        self.name = name

    def __repr__(self):
        return self.name

    def __hash__(self):
        return hash(("Sym", self.name))

    def __eq__(self, other):
        return isinstance(other, Sym) and other.name == self.name


def _impl_sym(case):
    """pools with unorderable outcomes (outside the rational model): one question per die, and the sampling
    distribution equals the brute-force enumeration of the dice (multisets of outcomes, compared through repr)"""
    from dyce import H, P

    def out(v):
        return Sym(v) if isinstance(v, str) else v
    p = P(*[H({out(o): c for o, c in d}) for d in case["sym_dice"]])

    def action():
        return {"ok": sorted(repr(x) for x in p.roll())}
    paths, exhaustive = rl.explore(action)
    got = {}
    for pa in paths:
        key = json.dumps(pa["result"].get("ok"))
        got[key] = got.get(key, Fraction(0)) + Fraction(*pa["prob"])
    import itertools
    want = {}
    tot = 1
    for d in case["sym_dice"]:
        tot *= sum(c for _, c in d)
    for combo in itertools.product(*case["sym_dice"]):
        cnt = 1
        for _, c in combo:
            cnt *= c
        key = json.dumps(sorted(repr(out(o)) for o, _ in combo))
        want[key] = want.get(key, Fraction(0)) + Fraction(cnt, tot)
    want = {k: v for k, v in want.items() if v}
    return {"sym_ok": got == want and exhaustive, "asks_ok": all(len(pa["asks"]) == len(p) for pa in paths),
            "npaths": len(paths), "paths": [], "reproducible": True}


def impl_run(case):
    import random
    import dyce.rng
    from dyce import H
    if case["kind"] == "p_sym":
        return _impl_sym(case)
    stored = None
    if case["kind"] == "h":
        d = gens.py_hist_dict(case["h"])
        if case.get("form") == "mixed":
            items = [o if c == 1 else (o, c) for o, c in d.items()]
            if items and all(isinstance(x, tuple) for x in items) and items[-1][1] > 1:
                o, c = items[-1]
                items[-1:] = [(o, c - 1), o]
            obj = H(reversed(items))
            stored = [[qv(o), c] for o, c in obj.items()]
        else:
            obj = H(d)
        conv = lambda v: qv(v)
    else:
        obj = pools.py_pool(case["dice"])
        conv = lambda v: [qv(x) for x in v]

    def action():
        return {"ok": conv(obj.roll())}
    paths, exhaustive = rl.explore(action)
    out = {"paths": paths, "exhaustive": exhaustive}
    if stored is not None:
        out["stored"] = stored
    # the generator installed at the time of the call is the only source of randomness
    old = dyce.rng.RNG
    try:
        dyce.rng.RNG = random.Random(12345)
        a = [conv(obj.roll()) for _ in range(5)]
        dyce.rng.RNG = random.Random(999)
        obj.roll()
        dyce.rng.RNG = random.Random(12345)
        b = [conv(obj.roll()) for _ in range(5)]
        out["reproducible"] = a == b
        # ... also for the NumPy-backed generator, with falsy seeds, freshly installed and re-seeded in place
        try:
            from dyce.rng import PCG64DXSMRandom
        except ImportError:
            PCG64DXSMRandom = None
        if PCG64DXSMRandom is not None:
            for seed in (0, 12345, [0], False):
                dyce.rng.RNG = PCG64DXSMRandom(seed)
                a = [conv(obj.roll()) for _ in range(4)]
                dyce.rng.RNG = PCG64DXSMRandom(seed)
                b = [conv(obj.roll()) for _ in range(4)]
                dyce.rng.RNG.seed(seed)
                c = [conv(obj.roll()) for _ in range(4)]
                if not (a == b == c):
                    out["reproducible"] = False
            # generators created up front and used one after the other; the default generator used in between
            g1, g2, g3 = PCG64DXSMRandom(4242), PCG64DXSMRandom(4242), PCG64DXSMRandom(4242)
            dyce.rng.RNG = g1
            a = [conv(obj.roll()) for _ in range(5)]
            dyce.rng.RNG = dyce.rng.DEFAULT_RNG
            obj.roll(), obj.roll()
            dyce.rng.RNG = g2
            b = [conv(obj.roll()) for _ in range(5)]
            dyce.rng.RNG = g3
            c = [conv(obj.roll()) for _ in range(3)]
            dyce.rng.RNG = g1
            a2 = [conv(obj.roll()) for _ in range(2)]
            dyce.rng.RNG = g3
            c += [conv(obj.roll()) for _ in range(2)]
            if not (a == b == c) or a2 == [] :
                out["reproducible"] = False
    finally:
        dyce.rng.RNG = old
    if case["kind"] == "p":
        agg = {}
        for roll, cnt in obj.rolls_with_counts():
            k = tuple(Fraction(x) for x in roll)
            agg[k] = agg.get(k, 0) + cnt
        out["rwc"] = pools.agg_to_list(agg)
        out["total"] = obj.total
    return out


def coq_check(case, r):
    if case["kind"] == "p_sym":
        return None          # outside the model's outcome domain: decided by the self-consistency oracle
    if "paths" not in r:
        return "MISMATCH"
    parts = []
    for p in r["paths"]:
        if case["kind"] == "h":
            e = cres(p["result"], cq)
            parts.append(f"chk_h_roll {chist(r.get('stored', case['h']))} {rl.cscript(p['script'])} {rl.casks(p['asks'])} {e}")
        else:
            e = cres(p["result"], lambda l: clist(cq(x) for x in l))
            parts.append(f"chk_p_roll {clist(chist(h) for h in case['dice'])} {rl.cscript(p['script'])} {rl.casks(p['asks'])} {e}")
    return " && ".join(parts) if parts else "true"


def coq_show(case):
    return None


def oracle(case):
    if case["kind"] == "p_sym":
        return {"spec": "one question per die; sampling distribution = brute force over the dice"}
    if case["kind"] == "h":
        t = sum(c for _, c in case["h"])
        if t == 0:
            return {"dist": [[[0, 1], [1, 1]]]}
        return {"dist": [[o, pools.fq(Fraction(c, t))] for o, c in case["h"] if c]}
    dice = pools.effective_dice(case["dice"])
    agg, tot = {}, 1
    for d in dice:
        tot *= sum(c for _, c in d)
    for roll, cnt in pools.brute_rolls(case["dice"]):
        agg[roll] = agg.get(roll, 0) + cnt
    if not dice:
        return {"dist": [[[], [1, 1]]]}
    return {"dist": [[[pools.fq(x) for x in k], pools.fq(Fraction(v, tot))] for k, v in sorted(agg.items()) if v]}


def agree(case, r, o):
    if case["kind"] == "p_sym":
        return bool(r.get("sym_ok") and r.get("asks_ok"))
    if "paths" not in r or not r.get("reproducible"):
        return False
    got = {}
    for p in r["paths"]:
        if "ok" not in p["result"]:
            return False
        v = p["result"]["ok"]
        key = Fraction(*v) if case["kind"] == "h" else tuple(Fraction(*x) for x in v)
        got[key] = got.get(key, 0) + Fraction(*p["prob"])
        if case["kind"] == "p":
            # one independent draw per die: one question per die
            if len(p["asks"]) != len(pools.effective_dice(case["dice"])):
                return False
    if case["kind"] == "h":
        want = {Fraction(*k): Fraction(*v) for k, v in o["dist"]}
    else:
        want = {tuple(Fraction(*x) for x in k): Fraction(*v) for k, v in o["dist"]}
        rwc = {tuple(Fraction(*x) for x in k): Fraction(c, r["total"]) for k, c in r["rwc"]}
        if pools.effective_dice(case["dice"]) and rwc != want:
            return False
    if r["exhaustive"]:
        return got == want
    return all(k in want and v <= want[k] for k, v in got.items())


def nontrivial(case, r):
    return len(r.get("paths", [])) >= 2


def case_class(case, r):
    if case["kind"] == "p_sym":
        return "p:symbolic" + ("" if r.get("sym_ok") else ":BAD")
    if case["kind"] == "h":
        t = sum(c for _, c in case["h"])
        return "h:" + ("empty" if not case["h"] else "zero-total" if t == 0 else "pos")
    return "p:" + case["shape"] + (":sampled" if not r.get("exhaustive", True) else "")


UNITS_NAME = "answer_paths_explored"


def units(case, r):
    return len(r.get('paths', []))
