"""C03 - selective pool sums P.h(*which) are exact, including every short-circuit."""
from fractions import Fraction

from common import chist, cres, hist_items
import gens
import pools

PID = "C03"
RULE = ("corpus first; then the pools x selections of C02 observed through P.h(*which) (count function and total), "
        "large pools beyond brute force (up to 10 dice x 12 faces quick, 12 x 20 thorough) compared with the proved "
        "model, and metamorphic pairs run on the implementation: equivalent selections (index / negative index / "
        "slice / permuted / regrouped) and increasing or decreasing affine relabelling.  Non-trivial: at least 2 "
        "dice and a selection; distinct case JSON.")
ASSUMPTIONS = [
    "outcome addition is Python's exact int/Fraction addition (modelled by Qc addition)",
    "rolls_with_counts assumptions of C02",
]


def _equiv_which(rng, n, which):
    """an equivalent selection: same multiset of positions"""
    idx = []
    t = tuple(range(n))
    try:
        for w in which:
            if "i" in w:
                idx.append(t[w["i"]])
            else:
                idx.extend(t[slice(*w["s"])])
    except IndexError:
        return None
    rng.shuffle(idx)
    out = []
    for i in idx:
        r = rng.random()
        if r < 0.4:
            out.append({"i": i})
        elif r < 0.7:
            out.append({"i": i - n})
        else:
            out.append({"s": [i, i + 1, None]})
    return out


def gen_cases(rng, tier):
    n = 400 if tier == "quick" else 6000
    cases = []
    for i in range(n):
        r = i % 10
        if r < 6:
            hs, shape = pools.gen_pool(rng, max_dice=4, max_faces=4)
            nd = len(pools.effective_dice(hs))
            which, cls = pools.gen_which(rng, nd)
            cases.append({"kind": "h", "dice": hs, "which": which, "shape": shape, "cls": cls})
        elif r == 6:
            # large homogeneous / grouped pools, selections hugging an end or the middle
            big = tier != "quick"
            nd = rng.randint(6, 12 if big else 9)
            faces = rng.randint(6, 20 if big else 10)
            h = [[gens.q(j), rng.choice([1, 1, 2])] for j in range(1, faces + 1)]
            if rng.random() < 0.5:
                dice = [h] * nd
                shape = "big-hom"
            else:
                h2 = [[gens.q(j), 1] for j in range(2, faces)]
                k = rng.randint(1, nd - 1)
                dice = [h] * k + [h2] * (nd - k)
                shape = "big-groups"
            # keep the number of distinct selected tuples moderate: the model enumerates them in Coq
            sel = rng.choice(["low", "high", "one"] + (["mid"] if nd <= 9 and faces <= 10 else []))
            k = rng.randint(1, 3) if faces <= 12 else rng.randint(1, 2)
            which = {"low": [{"s": [None, k, None]}], "high": [{"s": [-k, None, None]}],
                     "mid": [{"i": nd // 2}], "one": [{"i": rng.choice([0, -1, 1])}]}[sel]
            if shape == "big-groups" and sel == "mid":
                which = [{"s": [None, 2, None]}]
            cases.append({"kind": "h", "dice": dice, "which": which, "shape": shape, "cls": sel})
        elif r == 7 or r == 8:
            hs, shape = pools.gen_pool(rng, max_dice=4, max_faces=4)
            nd = len(pools.effective_dice(hs))
            which, cls = pools.gen_which(rng, nd)
            w2 = _equiv_which(rng, nd, which) if which else None
            if not which or w2 is None or not w2:
                cases.append({"kind": "h", "dice": hs, "which": which, "shape": shape, "cls": cls})
            else:
                cases.append({"kind": "equiv", "dice": hs, "which": which, "which2": w2, "shape": shape, "cls": cls})
        else:
            hs, shape = pools.gen_pool(rng, max_dice=4, max_faces=4, frac_p=0.0)
            nd = len(pools.effective_dice(hs))
            which, cls = pools.gen_which(rng, nd)
            a = rng.choice([1, 2, 3, -1, -2])
            b = rng.choice([-3, 0, 1, 5])
            cases.append({"kind": "affine", "dice": hs, "which": which, "a": a, "b": b, "shape": shape, "cls": cls})
    return cases


def _mirror(which, n):
    """positions i -> n-1-i, as a list of plain indexes (None if not resolvable)"""
    t = tuple(range(n))
    idx = []
    try:
        for w in which:
            if "i" in w:
                idx.append(t[w["i"]])
            else:
                idx.extend(t[slice(*w["s"])])
    except IndexError:
        return None
    return [n - 1 - i for i in idx]


def impl_run(case):
    from dyce import H, P
    p = pools.py_pool(case["dice"])
    k = case["kind"]
    try:
        res = p.h(*pools.py_which(case["which"], case.get("ityp")))
        out = {"ok": hist_items(res), "total": res.total, "ptotal": p.total, "n": len(p)}
        if k == "equiv":
            r2 = p.h(*pools.py_which(case["which2"]))
            out["equiv_ok"] = [x for x in hist_items(r2) if x[1]] == [x for x in out["ok"] if x[1]]
        if k == "affine":
            a, b = case["a"], case["b"]
            q = P(*[H({a * o + b: c for o, c in h.items()}) for h in p])
            if case["which"] is None:
                cnt = len(p)
                r2 = q.h()
            elif a > 0:
                r2 = q.h(*pools.py_which(case["which"], case.get("ityp")))
                cnt = None
            else:
                m = _mirror(case["which"], len(p))
                r2 = q.h(*m) if m else q.h(slice(0, 0))
                cnt = None
            if cnt is None:
                cnt = len(tuple(pools.pick(tuple(range(len(p))), case["which"])))
            expect = {}
            for o, c in res.items():
                expect[a * o + cnt * b] = expect.get(a * o + cnt * b, 0) + c
            got = {o: c for o, c in r2.items() if c}
            out["affine_ok"] = {o: c for o, c in expect.items() if c} == got
        return out
    except (ValueError, TypeError, IndexError, ZeroDivisionError) as e:
        return {"exc": type(e).__name__}


def coq_check(case, r):
    e = cres(r, chist) if ("ok" in r or "exc" in r) else None
    if e is None:
        return "MISMATCH"
    return f"chk_p_h {pools.cpool(case['dice'])} {pools.csel(case['which'])} {e}"


def coq_show(case):
    return f"p_h VO Vzero Vadd Vmulz {pools.cpool(case['dice'])} {pools.csel(case['which'])}"


def oracle(case):
    if pools.brute_size(case["dice"]) > 50000:
        return None
    agg = {}
    n = len(pools.effective_dice(case["dice"]))
    try:
        if case["which"]:
            pools.pick(tuple(range(n)), case["which"])
        for roll, cnt in pools.brute_rolls(case["dice"]):
            if n == 0:
                continue
            t = pools.pick(roll, case["which"])
            if case["which"] and len(t) == 0:
                continue
            s = sum(t, Fraction(0))
            agg[s] = agg.get(s, 0) + cnt
    except IndexError:
        return {"exc": "IndexError"}
    except ValueError:
        return {"exc": "ValueError"}
    return {"ok": [[pools.fq(k), agg[k]] for k in sorted(agg)]}


def agree(case, r, o):
    if "exc" in o:
        return r.get("exc") == o["exc"]
    if "ok" not in r:
        return False
    nz = lambda items: [[x, c] for x, c in items if c != 0]
    if nz(r["ok"]) != nz(o["ok"]):
        return False
    if o["ok"] and r["total"] != r["ptotal"]:
        return False
    return r.get("equiv_ok", True) and r.get("affine_ok", True)


def nontrivial(case, r):
    return len(pools.effective_dice(case["dice"])) >= 2 and case["which"] is not None


def case_class(case, r):
    return f"{case['kind']}:{case.get('shape', '?')}/{case.get('cls', '?')}" + (":" + r["exc"] if "exc" in r else "")


def shrink_candidates(case):
    import copy
    if case["kind"] != "h":
        c = copy.deepcopy(case)
        c["kind"] = "h"
        yield c
    for i in range(len(case["dice"])):
        c = copy.deepcopy(case)
        del c["dice"][i]
        yield c
    for i, d in enumerate(case["dice"]):
        for j in range(len(d)):
            if len(d) > 1:
                c = copy.deepcopy(case)
                del c["dice"][i][j]
                yield c
    if case["which"]:
        for i in range(len(case["which"])):
            c = copy.deepcopy(case)
            del c["which"][i]
            if c["which"]:
                yield c


def neighbours(case):
    yield from shrink_candidates(case)
