"""C15 - histograms, pools and rollers are immutable values."""
import copy
from fractions import Fraction

from common import chist, clist, cq, cz, cnat, qv
import gens

PID = "C15"
RULE = ("corpus first; then random sequences of 8-25 public operations over a shared, growing population of "
        "histograms, pools and rollers: construction from existing objects (H(h), H(p), P(p, h, ...), n@p, p[i], "
        "p[i:j], r.annotate), arithmetic, lowest_terms, draws (also failing), accumulate, item assignment and "
        "deletion, rejected calls, and between them queries, evaluations and rolls whose results are discarded "
        "(h(which), rolls_with_counts, order statistics, ==, hash, foreach, explode, substitute, roll()).  After "
        "EVERY step the full snapshot (items with types, totals, dice tuples, roller reprs) of EVERY object that "
        "existed before is compared with its snapshot at creation; the resolved operations are replayed in the "
        "store model and the result ids / exceptions and final observations of all objects compared.  "
        "Non-trivial: at least three objects constructed from other objects and one failing operation.")
ASSUMPTIONS = [
    "the model cannot exhibit mutation through private attributes or C extensions; only public observations are compared",
    "object identity is modelled by store ids",
]

KIND_OPS = ["const", "query", "add", "alias", "lowest", "draw", "accumulate", "pool", "pool_index", "pool_slice", "matmul_p",
            "flatten", "roller", "annotate", "setitem", "delitem", "rejected", "query", "query", "query", "select", "shorthand", "shorthand", "retype", "retype", "draw", "pool_twin", "pool_twin", "rsources", "subst_fail", "rmatmul", "rmatmul"]


def gen_cases(rng, tier):
    n = 120 if tier == "quick" else 1500
    cases = []
    for _ in range(n):
        ops = [["const", gens.hist_pos(rng, max_faces=3, frac_p=0.05)], ["const", gens.hist(rng, max_faces=3, frac_p=0.0)]]
        for _ in range(rng.randint(8, 25)):
            k = rng.choice(KIND_OPS)
            r = [rng.randint(0, 10 ** 6) for _ in range(4)]
            if k == "const":
                ops.append(["const", gens.hist(rng, max_faces=3, frac_p=0.05)])
            elif k == "draw":
                ops.append(["draw", r[0], r[1], rng.choice([1, 1, 2, 5, -1, 0, -2]), rng.choice([None, None, 8, -8]), rng.choice([0, 0, 5])])
            elif k == "retype":
                ops.append(["retype", r[0], rng.choice(["float", "Fraction", "bool"])])
            elif k == "pool_twin":
                ops.append(["pool_twin", r[0], rng.choice(["float", "Fraction", "scale2", "scale3"])])
            elif k == "subst_fail":
                ops.append(["subst_fail", r[0], rng.randint(1, 4), rng.randint(0, 5)])
            elif k == "rmatmul":
                ops.append(["rmatmul", r[0], rng.choice([0, 0, 1, 2, 3]), rng.choice([0, 0, 1, 2])])
            elif k == "matmul_p":
                ops.append(["matmul_p", rng.choice([0, 1, 2, -1]), r[0]])
            elif k == "pool":
                ops.append(["pool", r[:rng.randint(1, 3)]])
            elif k == "roller":
                ops.append(["roller", r[:rng.randint(1, 2)], rng.randint(0, 5)])
            elif k == "shorthand":
                # H(n) for the same n in different numeric types: each construction is a new, independent object
                ops.append(["shorthand", rng.choice([1, 2, 3, 3, 4, -2, 0]), rng.choice(["int", "int", "float", "Fraction", "bool", "npint"])])
            elif k == "select":
                ops.append(["select", r[0], rng.choice(["tuple", "list", "iterator", "generator"]), rng.randint(0, 5)])
            elif k == "query":
                ops.append(["query", rng.choice(["lookup", "lookup", "h_which", "rwc", "order", "eq", "eq", "eq", "hash", "foreach", "explode", "substitute",
                                                 "roll", "rroll", "scalar", "cmp", "zero_fill", "zero_fill", "stats", "format", "annotate_eq"]), r[0], r[1]])
            else:
                ops.append([k] + r[:3])
        if any(o[1] != 1 for op in ops if op[0] == "const" for o, _ in op[1]):
            # float twins next to non-integral Fractions would make sums inexact (3.0 + 1/3): keep such populations exact
            for op in ops:
                if op[0] in ("retype", "pool_twin", "shorthand") and "float" in op:
                    op[op.index("float")] = "Fraction"
        cases.append({"kind": "ops", "ops": ops})
    return cases


def impl_run(case):
    import operator
    from dyce import H, P, R
    from dyce.evaluation import foreach, explode
    pop = []          # (kind, object, snapshot at creation)
    resolved, results = [], []
    lowest_done = set()
    problems = []

    def snap(kind, o):
        if kind == "H":
            return ("H", [(type(k).__name__, qv(k), c) for k, c in o.items()], o.total, len(o))
        if kind == "P":
            return ("P", [[(type(k).__name__, qv(k), c) for k, c in d.items()] for d in o], o.total, len(o))
        return ("R", repr(o))

    def add(kind, o):
        for i, (_, x, _) in enumerate(pop):
            if x is o:
                return i
        pop.append((kind, o, snap(kind, o)))
        return len(pop) - 1

    def pick(kind, r):
        ids = [i for i, (k, _, _) in enumerate(pop) if k == kind]
        return ids[r % len(ids)] if ids else None

    def check(step):
        for i, (kind, o, s0) in enumerate(pop):
            if snap(kind, o) != s0:
                problems.append(f"object {i} ({kind}) changed after step {step}")

    for step, op in enumerate(case["ops"]):
        k = op[0]
        res = None
        rop = None
        try:
            if k == "const":
                rop = ["const", op[1]]
                d = gens.py_hist_dict(op[1])
                res = ("H", H(d))
                idx = add(res[0], res[1])
                # the caller goes on using ITS dict (a running tally): the histogram built from it is a value
                d[10 ** 6 + step] = 5
                for key in list(d)[:1]:
                    d[key] += 7
                resolved.append(rop)
                results.append({"ok": idx})
                check(step)
                continue
            elif k == "shorthand":
                import numpy
                n = op[1]
                typ = op[2] if (op[2] != "bool" or n in (0, 1)) else "int"
                v = {"int": int, "float": float, "Fraction": Fraction, "bool": bool, "npint": numpy.int8}[typ](n)
                items = [[gens.q(i), 1] for i in (range(1, n + 1) if n > 0 else range(n, 0))]
                rop = ["const", items]
                res = ("H", H(v))
            elif k == "rmatmul":
                # n @ r builds a new roller (also when r is itself a repetition and n is 0 or 1); r is as it was
                ri_ = pick("R", op[1])
                if ri_ is None:
                    continue
                r0 = pop[ri_][1]
                first = op[2] @ r0
                i1 = add("R", first)
                resolved.append(["roller", [ri_], 0])
                results.append({"ok": i1})
                check(step)
                second = first @ op[3] if step % 2 else op[3] @ first
                rop = ["roller", [i1], 0]
                res = ("R", second)
                if second is first:
                    problems.append(f"n @ (repeated roller) handed back its operand at step {step}")
            elif k == "rsources":
                # the sequence of sources a roller hands out cannot be used to rewrite the roller
                ri_ = pick("R", op[1])
                if ri_ is None:
                    continue
                r0 = pop[ri_][1]
                extra_src = R.from_value(1)
                attempts = [lambda: r0.sources.__setitem__(0, extra_src), lambda: r0.sources.__delitem__(0),
                            lambda: r0.sources.append(extra_src), lambda: r0.sources.reverse(), lambda: r0.sources.clear(),
                            lambda: setattr(r0, "sources", r0.sources + (extra_src,)), lambda: setattr(r0, "annotation", "changed")]
                for j, att in enumerate(attempts):
                    try:
                        att()
                        problems.append(f"in-place change #{j} of a roller's sources / annotation was accepted at step {step}")
                    except (TypeError, AttributeError, IndexError):
                        pass
                check(step)
                continue
            elif k == "subst_fail":
                # a substitution roller whose expansion operator fails part-way through a roll: the failed roll changes nothing
                from dyce.r import SubstitutionRoller, CoalesceMode
                ri_ = pick("R", op[1])
                if ri_ is None:
                    continue
                calls = {"n": 0}

                def failing_op(outcome, _k=op[2], _src=pop[ri_][1]):
                    calls["n"] += 1
                    if calls["n"] > _k:
                        raise ValueError("expansion failed")
                    return _src.roll()
                rop = ["roller", [ri_], op[3]]
                sr = SubstitutionRoller(failing_op, pop[ri_][1], CoalesceMode.APPEND, 3, annotation=op[3])
                res = ("R", sr)
                idx = add(res[0], res[1])
                resolved.append(rop)
                results.append({"ok": idx})
                for _ in range(2):
                    calls["n"] = 0
                    try:
                        sr.roll()
                    except (ValueError, RecursionError, IndexError, TypeError):
                        pass          # the operator's failure, or the source's own (a selection beyond its outcomes)
                    check(step)
                continue
            elif k == "pool_twin":
                # a pool whose dice are equal, one by one, to those of an existing pool but differ in scale or type
                pi = pick("P", op[1])
                if pi is None:
                    continue
                p0 = pop[pi][1]
                if any(Fraction(o).denominator != 1 for d0 in p0 for o in d0):
                    continue
                conv = {"float": float, "Fraction": Fraction}.get(op[2], lambda o: o)
                kk = {"scale2": 2, "scale3": 3}.get(op[2], 1)
                dice = [H({conv(o): c * kk for o, c in d0.items()}) for d0 in p0]
                ids = []
                for d1 in dice:
                    ids.append(add("H", d1))
                    resolved.append(["const", [[qv(o), c] for o, c in d1.items()]])
                    results.append({"ok": ids[-1]})
                rop = ["pool", ids]
                res = ("P", P(*dice))
                idx = add(res[0], res[1])
                resolved.append(rop)
                results.append({"ok": idx})
                # comparing is a query: neither operand changes, whichever side it is on
                p0 == res[1], res[1] == p0, p0 != res[1], res[1] in [p0], [p0, res[1]].index(res[1])
                check(step)
                continue
            elif k == "retype":
                # the same items with outcomes of another numeric type: a new object that compares equal
                a = pick("H", op[1])
                h = pop[a][1]
                conv = {"float": float, "Fraction": Fraction, "bool": bool}[op[2]]
                if any(Fraction(o).denominator != 1 for o in h) or (op[2] == "bool" and any(o not in (0, 1) for o in h)):
                    continue
                rop = ["const", [[qv(o), c] for o, c in h.items()]]
                res = ("H", H({conv(o): c for o, c in h.items()}))
            elif k == "add":
                a, b = pick("H", op[1]), pick("H", op[2])
                rop = ["add", a, b]
                res = ("H", pop[a][1] + pop[b][1])
            elif k == "alias":
                a = pick("H", op[1])
                rop = ["alias", a]
                res = ("H", H(pop[a][1]))
            elif k == "lowest":
                a = pick("H", op[1])
                if a in lowest_done:
                    continue
                lowest_done.add(a)
                rop = ["lowest", a]
                res = ("H", pop[a][1].lowest_terms())
            elif k == "draw":
                a = pick("H", op[1])
                h = pop[a][1]
                keys = list(h)
                o = keys[op[2] % len(keys)] if keys else 0
                req = [[o, op[3]]]
                if len(op) > 4 and op[3] <= 0 and op[4] is not None and op[4] not in keys:
                    # a non-positive amount for an outcome the histogram does not have (adds cards / a zero entry),
                    # visited BEFORE an existing outcome; with op[5] the same request also over-draws and must fail
                    req = [[op[4], op[3]]] + ([[o, op[5]]] if op[5] else [])
                rop = ["draw", a, [[qv(x), n] for x, n in req]]
                res = ("H", h.draw(dict(req)))
            elif k == "accumulate":
                a, b = pick("H", op[1]), pick("H", op[2])
                rop = ["accumulate", a, b]
                res = ("H", pop[a][1].accumulate(pop[b][1]))
            elif k == "pool":
                ids = [pick(rng_kind, r) for r, rng_kind in zip(op[1], ["H", "P", "H"])]
                ids = [i for i in ids if i is not None]
                rop = ["pool", ids]
                res = ("P", P(*[pop[i][1] for i in ids]))
            elif k == "pool_index":
                p = pick("P", op[1])
                if p is None:
                    continue
                n = len(pop[p][1])
                i = op[2] % (n + 1)
                rop = ["pool_index", p, i]
                res = ("H", pop[p][1][i])
            elif k == "pool_slice":
                p = pick("P", op[1])
                if p is None:
                    continue
                n = len(pop[p][1])
                lo = op[2] % (n + 1)
                hi = lo + op[3] % (n + 1 - lo + 1)
                rop = ["pool_slice", p, lo, min(hi, n)]
                res = ("P", pop[p][1][lo:min(hi, n)])
            elif k == "matmul_p":
                p = pick("P", op[2])
                if p is None:
                    continue
                rop = ["matmul_p", op[1], p]
                res = ("P", op[1] @ pop[p][1])
            elif k == "flatten":
                p = pick("P", op[1])
                if p is None:
                    continue
                rop = ["flatten", p]
                res = ("H", H(pop[p][1]) if op[2] % 2 else pop[p][1].h())
            elif k == "roller":
                ids = [pick("R", r) for r in op[1]]
                ids = [i for i in ids if i is not None]
                rop = ["roller", ids, op[2]]
                if ids:
                    res = ("R", R.from_sources(*[pop[i][1] for i in ids], annotation=op[2]))
                else:
                    h = pick("H", op[1][0])
                    res = ("R", R.from_value(pop[h][1], annotation=op[2]))
            elif k == "select":
                # a selection roller whose selector arrives as a caller-owned list or a one-shot iterable; the
                # caller's list is emptied right after construction (the roller must have its own copy)
                r = pick("R", op[1])
                if r is None:
                    continue
                rop = ["roller", [r], op[3]]
                lst = [0, -1, slice(None)]
                given = {"tuple": tuple(lst), "list": lst, "iterator": iter(lst), "generator": (x for x in list(lst))}[op[2]]
                srcs = [pop[r][1]]
                res = ("R", R.select_from_sources_iterable(given, srcs if op[3] % 2 else iter(srcs), annotation=op[3]))
                idx = add(res[0], res[1])
                if op[2] == "list":
                    lst.clear()
                srcs.clear()
                try:
                    res[1].roll()
                except (ValueError, IndexError, TypeError):
                    pass          # a source may be a roller whose expansion operator fails (subst_fail)
                resolved.append(rop)
                results.append({"ok": idx})
                check(step)
                continue
            elif k == "annotate":
                r = pick("R", op[1])
                if r is None:
                    continue
                rop = ["annotate", r, op[2] % 7]
                res = ("R", pop[r][1].annotate(op[2] % 7))
            elif k in ("setitem", "delitem"):
                a = pick("H", op[1])
                rop = ["setitem", a]
                h = pop[a][1]
                key = next(iter(h), 1)
                if k == "setitem":
                    h[key] = 99
                else:
                    del h[key]
                problems.append(f"item assignment/deletion succeeded at step {step}")
            elif k == "rejected":
                a = pick("H", op[1])
                rop = ["rejected", "ValueError" if op[2] % 2 else "TypeError"]
                if op[2] % 2:
                    (-1) @ pop[a][1]
                else:
                    2.5 @ pop[a][1]
                problems.append(f"invalid call accepted at step {step}")
            elif k == "query":
                q = op[1]
                h = pop[pick("H", op[2])][1]
                pi = pick("P", op[3])
                p = pop[pi][1] if pi is not None else P(h, h)
                ri = pick("R", op[3])
                if q == "lookup":
                    # read-only lookups of outcomes the histogram does not have
                    present = set(h)
                    for absent in [x for x in (77, -77, Fraction(1, 3), 77.5, Fraction(22, 7)) if x not in present]:
                        if h.get(absent, "D") != "D" or (absent in h) or h.get(absent) is not None:
                            problems.append(f"lookup of an absent outcome answered as if present at step {step}")
                        try:
                            h[absent]
                            problems.append(f"h[absent] did not raise KeyError at step {step}")
                        except KeyError:
                            pass
                        h.exactly_k_times_in_n(absent, 2, 1), p.appearances_in_rolls(absent)
                        (h + 1).get(absent), (h + 1).exactly_k_times_in_n(absent, 2, 0)
                    list(h.counts()), list(h.outcomes()), dict(h), list(h.keys()), list(h.values())
                    for d in p:
                        d.get(77), d.get(-77, 0)
                elif q == "h_which":
                    p.h(0), p.h(-1), p.h(slice(None)), p.h()
                elif q == "rwc":
                    list(p.rolls_with_counts()), list(p.rolls_with_counts(0))
                elif q == "order":
                    h.order_stat_for_n_at_pos(2, 0), h.order_stat_for_n_at_pos(3, -1)
                elif q == "eq":
                    h == h, h != p, p == p
                    # comparisons, hashing and grouping across ALL histograms and pools alive (equal ones of
                    # different representation included)
                    hs = [o for kk, o, _ in pop if kk == "H"]
                    for x in hs:
                        for y in hs:
                            x == y, x != y
                    len({x for x in hs}), {x: 1 for x in hs}
                    ps = [o for kk, o, _ in pop if kk == "P"]
                    for x in ps:
                        for y in ps:
                            x == y, x != y
                    ps.index(ps[-1]) if ps else None, (ps[-1] in ps[:-1]) if ps else None
                    if hs:
                        P(*hs[:4]).is_homogeneous(), repr(P(*hs[:4]))
                elif q == "hash":
                    hash(h), hash(h.lowest_terms()) if False else hash(h)
                elif q == "foreach":
                    foreach(lambda a, b: a.outcome + b.roll[0] if b.roll else a.outcome, a=h, b=p)
                elif q == "explode":
                    explode(h, limit=1), h.explode(max_depth=1)
                elif q == "substitute":
                    h.substitute(lambda hh, o: hh if o == max(hh, default=0) else o, operator.__add__, max_depth=1)
                elif q == "roll":
                    h.roll(), p.roll()
                elif q == "rroll":
                    if ri is not None:
                        pop[ri][1].roll()
                elif q == "scalar":
                    h + 1, 2 * h, -h, abs(h), h // 2 if 0 not in [2] else None
                elif q == "cmp":
                    h.lt(2), h.eq(h), h.within(-1, 1, h), h.is_even() if all(Fraction(o).denominator == 1 for o in h) else None
                elif q == "zero_fill":
                    # fills above the largest outcome, below the smallest, between, and mixed
                    h.zero_fill([99, 100]), h.zero_fill([-99]), h.zero_fill([99, -99]), h.zero_fill([Fraction(1, 2)])
                    h.zero_fill(list(h)), h.remove(next(iter(h), 0)), h.umap(lambda o: o), h.accumulate(h), h.accumulate(H(h))
                elif q == "annotate_eq":
                    # re-annotating with an equal-but-distinguishable value must not touch the original
                    if ri is not None:
                        r0 = pop[ri][1]
                        a0 = r0.annotation
                        r0.annotate(a0), r0.annotate(float(a0) if isinstance(a0, int) else a0), r0.annotate(bool(a0) if a0 in (0, 1) else a0)
                elif q == "stats":
                    h.mean(), h.variance(), list(h.distribution())
                elif q == "format":
                    h.format(), repr(h), repr(p)
                check(step)
                continue
        except (ValueError, TypeError, IndexError, ZeroDivisionError) as e:
            if rop is None:
                check(step)
                continue
            resolved.append(rop)
            results.append({"exc": type(e).__name__})
            check(step)
            continue
        if rop is None:
            continue
        idx = add(res[0], res[1])
        resolved.append(rop)
        results.append({"ok": idx})
        check(step)

    final = []
    for kind, o, _ in pop:
        if kind == "H":
            final.append(["H", [[qv(k), c] for k, c in o.items()], o.total])
        elif kind == "P":
            final.append(["P", [[[qv(k), c] for k, c in d.items()] for d in o]])
        else:
            srcs = []
            for s in o.sources:
                srcs.append(next((i for i, (_, x, _) in enumerate(pop) if x is s), -1))
            final.append(["R", srcs, o.annotation if isinstance(o.annotation, int) else -1])
    return {"resolved": resolved, "results": results, "final": final, "problems": problems[:5], "npop": len(pop)}


def _cop(o):
    k = o[0]
    if k == "const":
        return f"(OConst {chist(o[1])})"
    if k == "add":
        return f"(OAdd {cnat(o[1])} {cnat(o[2])})"
    if k == "alias":
        return f"(OAlias {cnat(o[1])})"
    if k == "lowest":
        return f"(OLowest {cnat(o[1])})"
    if k == "draw":
        return "(ODraw %s %s)" % (cnat(o[1]), clist(f"({cq(x)}, {cz(a)})" for x, a in o[2]))
    if k == "accumulate":
        return f"(OAccumulate {cnat(o[1])} {cnat(o[2])})"
    if k == "pool":
        return f"(OPool {clist(cnat(i) for i in o[1])})"
    if k == "pool_index":
        return f"(OPoolIndex {cnat(o[1])} {cnat(o[2])})"
    if k == "pool_slice":
        return f"(OPoolSlice {cnat(o[1])} {cnat(o[2])} {cnat(o[3])})"
    if k == "matmul_p":
        return f"(OMatmulP {cz(o[1])} {cnat(o[2])})"
    if k == "flatten":
        return f"(OFlatten {cnat(o[1])})"
    if k == "roller":
        return f"(ORoller {clist(cnat(i) for i in o[1])} {cnat(o[2])})"
    if k == "annotate":
        return f"(OAnnotate {cnat(o[1])} {cnat(o[2])})"
    if k == "setitem":
        return f"(OSetItem {cnat(o[1])})"
    if k == "rejected":
        return f"(ORejected {o[1]})"
    raise ValueError(k)


def coq_check(case, r):
    if "resolved" not in r:
        return "MISMATCH"
    # rollers built from a value have no roller sources in the model either: ORoller [] ann
    ops = clist(_cop(o) for o in r["resolved"])
    res = []
    for x in r["results"]:
        if "ok" in x:
            res.append(f"(Ok {cnat(x['ok'])})")
        elif x["exc"] in ("ValueError", "TypeError", "IndexError"):
            res.append(f"(Err {x['exc']})")
        else:
            return "MISMATCH"
    fin = []
    for f in r["final"]:
        if f[0] == "H":
            fin.append(f"(ObsH {chist(f[1])} {cz(f[2])})")
        elif f[0] == "P":
            fin.append(f"(ObsP {clist(chist(d) for d in f[1])})")
        else:
            if -1 in f[1] and f[1] != [-1]:
                return "MISMATCH"
            srcs = [] if f[1] == [-1] else f[1]
            fin.append(f"(ObsR {clist(cnat(i) for i in srcs)} {cnat(max(f[2], 0))})")
    return f"chk_store {ops} {clist(res)} {clist(fin)}"


def coq_show(case):
    return None


def oracle(case):
    return {"spec": "no snapshot of an existing object ever differs from its snapshot at creation"}


def agree(case, r, o):
    return "problems" in r and not r["problems"]


def nontrivial(case, r):
    derived = sum(1 for o in r.get("resolved", []) if o and o[0] in ("alias", "pool", "pool_slice", "matmul_p", "flatten", "annotate", "add"))
    return derived >= 3 and any("exc" in x for x in r.get("results", []))


def case_class(case, r):
    n = r.get("npop", 0)
    return ("pop<6" if n < 6 else "pop6-12" if n <= 12 else "pop>12") + (":problems" if r.get("problems") else "")


UNITS_NAME = "operations_executed_with_full_snapshots"


def units(case, r):
    return len(case['ops'])
