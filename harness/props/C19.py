"""C19 - invalid arguments are rejected, never turned into a wrong histogram."""
import concurrent.futures as cf
from fractions import Fraction

import common
from common import cz, cnat, cres, clist
import gens

PID = "C19"
RULE = ("the argument grammar (int, bool, numpy integer; float, Fraction, numpy float - integral, non-integral and "
        "negative values; str; None) is ENUMERATED for every entry point that documents a rejection: histogram "
        "counts, n@h / n@p / n@r, selection positions of P.h / rolls_with_counts / SelectionRoller, limit= of "
        "explode / foreach, is_even / is_odd outcomes, within(lo, hi), max_depth together with precision_limit, "
        "RollOutcome(None); every case runs with NUMERARY_BEARTYPE off and on.  Observable: the value produced or "
        "the exception class; the operand objects are snapshotted before and after every call.  Non-trivial: an "
        "argument that is not a plain non-negative int.")
ASSUMPTIONS = [
    "beartype is modelled as a mode flag turning the TypeError of non-numbers into the checker's violation error",
    "numpy scalars are modelled by their exact value and kind (integer / float)",
]

INT_VALUES = [-4, -2, -1, 0, 1, 2, 3, 5]
Q_VALUES = [Fraction(-2), Fraction(-1), Fraction(0), Fraction(1), Fraction(2), Fraction(3), Fraction(5, 2),
            Fraction(1, 2), Fraction(-1, 2), Fraction(1, 4), Fraction(3, 2)]


def grammar():
    args = []
    for z in INT_VALUES:
        args.append(["int", z])
        args.append(["npint", z])
    args += [["bool", True], ["bool", False]]
    for q in Q_VALUES:
        for k in ("float", "frac", "npfloat"):
            args.append([k, q.numerator, q.denominator])
    args += [["str"], ["none"]]
    return args


ENTRY = ["count", "count_repeated", "matmul_h", "matmul_p", "matmul_r", "index_h", "index_rwc", "index_sel", "limit", "parity"]


def gen_cases(rng, tier):
    cases = []
    for bt in (False, True):
        for ep in ENTRY:
            for a in grammar():
                if ep == "limit" and a[0] in ("int", "npint") and a[1] in (-1, 5):
                    continue
                if ep == "parity" and a[0] in ("str", "none"):
                    continue          # outcomes are numbers          # unbounded / deep recursion: valid but slow, covered by C07
                cases.append({"kind": ep, "arg": a, "bt": bt})
        # the same decorated function called first with one limit and then with an equal-valued limit of another
        # type (2 then 2.0, 1 then Fraction(1), ...): each call is validated on its own
        def _val(a):
            if a[0] in ("int", "npint"):
                return Fraction(a[1])
            if a[0] == "bool":
                return Fraction(int(a[1]))
            if a[0] in ("float", "frac", "npfloat"):
                return Fraction(a[1], a[2])
            return None
        g = [a for a in grammar() if _val(a) is not None and -3 <= _val(a) <= 3]
        for warm in g:
            for a in g:
                if a != warm and _val(a) == _val(warm) and not (a[0] in ("int", "npint", "bool") and _val(a) in (-1, 5)) \
                        and not (warm[0] in ("int", "npint", "bool") and _val(warm) in (-1, 5)):
                    cases.append({"kind": "limit_reused", "warm": warm, "arg": a, "bt": bt})
        for lo, hi in [(0, 0), (1, 2), (2, 1), (-1, -2), (Fraction(1, 2), Fraction(1, 3))]:
            for recv in ("h", "empty_h", "zero_total_h", "empty_p", "p", "h_vs_empty", "p_vs_empty_p"):
                cases.append({"kind": "within", "lo": [Fraction(lo).numerator, Fraction(lo).denominator],
                              "hi": [Fraction(hi).numerator, Fraction(hi).denominator], "bt": bt, "recv": recv})
        for md, pl in [(True, True), (True, False), (False, True), (False, False)]:
            for via in ("explode", "substitute"):
                for mdv in ([0, 1, 2, False] if md else [None]):
                    for recv in ("h", "single", "single_weighted", "zero_single", "empty", "pool_single"):
                        cases.append({"kind": "both", "md": md, "pl": pl, "via": via, "bt": bt, "mdv": mdv, "recv": recv})
        # illegal limits given to the deprecated spellings, on receivers of every size (a one-faced histogram included)
        for recv in ("h", "single", "single_weighted", "zero_single", "pool_single"):
            for bad in ([3, 2], [-1, 2], [1, 1], [0, 1]):
                for via in ("explode", "substitute"):
                    cases.append({"kind": "badlimit", "bad": bad, "float": bad[0] % 2 == 1 and bad != [1, 1], "via": via, "recv": recv, "bt": bt})
            for via in ("explode", "substitute"):
                cases.append({"kind": "badlimit", "bad": None, "md": -2, "via": via, "recv": recv, "bt": bt})
        for none, ns in [(True, 0), (True, 1), (True, 2), (False, 0), (False, 1)]:
            for style in ("tuple", "list", "iterator", "generator", "filter"):
                cases.append({"kind": "rollnone", "none": none, "ns": ns, "bt": bt, "style": style})
    for bt in (False, True):
        for rej in ("parity_frac", "none_outcome", "neg_count"):
            for style in ("generator", "map", "filter", "list_then_fail"):
                for nbefore in (1, 2):
                    cases.append({"kind": "roll_lazy_fail", "rej": rej, "style": style, "nbefore": nbefore, "bt": bt})
    import evalcommon as ec
    q = gens.q
    for bt in (False, True):
        for name in ec.REJECTS:
            for lim in (["int", 2], ["int", 3], ["frac", 1, 5], None):
                # "a rejected call leaves every existing object unchanged and usable" - the evaluator included: a callback
                # of a nested evaluation makes the rejected call, the enclosing callback catches the exception and goes on
                # with another nested evaluation, which must see the enclosing limit, depth and precision
                coin = {"h": [[q(1), 1], [q(2), 1]]}
                mech = {"states": [
                    {"srcs": [coin], "npos": 0, "sentinel": [[q(0), 1]],
                     "table": [[[[q(1)]], ["try", "Exception", ["call", 1, None], ["addc", q(10), ["call", 2, None]]]],
                               [[[q(2)]], ["try", "Exception", ["call", 1, None], ["addc", q(20), ["call", 2, None]]]]]},
                    {"srcs": [coin], "npos": 1, "sentinel": [[q(50), 1]],
                     "table": [[[[q(1)]], ["out", q(1)]], [[[q(2)]], ["reject", name]]]},
                    {"srcs": [coin], "npos": 0, "sentinel": [[q(70), 1]],
                     "table": [[[[q(1)]], ["out", q(1)]], [[[q(2)]], ["addc", q(1), ["call", 2, None]]]]}]}
                cases.append({"kind": "mech_reject", "mech": mech, "calls": [[0, lim], [2, None], [0, ["int", 1]]], "bt": bt,
                              "foreach": name in ("neg_count", "index_oob")})
    for bt in (False, True):
        for mode in ("replace", "append", "default"):
            for ns in (0, 1):
                for how in ("outcome", "roll"):
                    cases.append({"kind": "adoptnone", "mode": mode, "ns": ns, "how": how, "bt": bt})
    if tier == "quick":
        return cases
    return cases   # the grammar is finite: quick already enumerates it completely


def py_arg(a):
    import numpy as np
    k = a[0]
    if k == "int":
        return a[1]
    if k == "npint":
        return np.int64(a[1])
    if k == "bool":
        return a[1]
    if k == "float":
        return a[1] / a[2]
    if k == "frac":
        return Fraction(a[1], a[2])
    if k == "npfloat":
        return np.float64(a[1] / a[2])
    if k == "str":
        return "2"
    return None


def _receiver(name, h):
    from dyce import H, P
    return {"h": h, "single": H({6: 1}), "single_weighted": H({3: 4}), "zero_single": H({2: 0}), "empty": H({}),
            "pool_single": P(H({5: 2}))}[name or "h"]


def impl_run(case):
    from dyce import H, P, R
    from dyce.r import RollOutcome
    from dyce.evaluation import explode
    k = case["kind"]
    h = H({1: 1, 2: 2, 3: 1})
    p = 3 @ P(h)
    r = R.from_value(h)
    snap = lambda: (list(h.items()), h.total, [list(d.items()) for d in p], p.total, repr(r))
    before = snap()
    try:
        if k == "count":
            res = H({7: py_arg(case["arg"])})
            out = {"ok": res[7]}
        elif k == "count_repeated":
            # the same outcome listed several times: every listed count must be valid on its own
            res = H([(7, 3), (7, py_arg(case["arg"])), (8, 1)])
            out = {"ok": res[7] - 3}
        elif k == "matmul_h":
            res = py_arg(case["arg"]) @ h
            out = {"ok": int(round(0 if res.total == 0 else __import__("math").log(res.total, 4))) if res.total else 0, "total": res.total}
        elif k == "matmul_p":
            res = py_arg(case["arg"]) @ p
            out = {"ok": len(res) // 3}
        elif k == "matmul_r":
            res = py_arg(case["arg"]) @ r
            out = {"ok": res.n}
        elif k == "index_h":
            res = p.h(py_arg(case["arg"]))
            ref = [p.h(i) for i in range(3)]
            out = {"ok": ref.index(res)}
        elif k == "index_rwc":
            rolls = {}
            for roll, c in p.rolls_with_counts(py_arg(case["arg"])):
                rolls[roll] = rolls.get(roll, 0) + c
            ref = []
            for i in range(3):
                d = {}
                for roll, c in p.rolls_with_counts(i):
                    d[roll] = d.get(roll, 0) + c
                ref.append(d)
            out = {"ok": ref.index(rolls)}
        elif k == "index_sel":
            sr = R.select_from_values((py_arg(case["arg"]),), 10, 20, 30)
            out = {"ok": [10, 20, 30].index(tuple(sr.roll().outcomes())[0])}
        elif k == "limit":
            res = explode(H(2), limit=py_arg(case["arg"]))
            out = {"ok": 0, "total": res.total}
        elif k == "limit_reused":
            from dyce.evaluation import expandable

            @expandable
            def reused(r):
                return reused(r.h) + r.outcome if r.outcome == 2 else r.outcome
            try:
                reused(H(2), limit=py_arg(case["warm"]))
            except Exception:  # noqa - only the second call is observed
                pass
            res = reused(H(2), limit=py_arg(case["arg"]))
            out = {"ok": 0, "total": res.total}
        elif k == "parity":
            res = H({py_arg(case["arg"]): 1}).is_even()
            out = {"ok": bool(list(res)[0])}
        elif k == "within":
            from dyce import P as _P
            lo, hi = Fraction(*case["lo"]), Fraction(*case["hi"])
            recv = case.get("recv", "h")
            # the bounds are validated whatever the operands are (nothing to compare included)
            if recv == "h":
                h.within(lo, hi)
            elif recv == "empty_h":
                H({}).within(lo, hi)
            elif recv == "zero_total_h":
                H({1: 0}).within(lo, hi)
            elif recv == "empty_p":
                _P().within(lo, hi)
            elif recv == "p":
                _P(h, h).within(lo, hi)
            elif recv == "h_vs_empty":
                h.within(lo, hi, H({}))
            else:
                _P(h).within(lo, hi, _P())
            out = {"ok": 0}
        elif k == "badlimit":
            recv_ = _receiver(case["recv"], h)
            if case["bad"] is None:
                kw = {"max_depth": case["md"]}
            else:
                q_ = Fraction(*case["bad"])
                kw = {"precision_limit": float(q_) if case.get("float") else q_}
            if case["via"] == "explode":
                recv_.explode(**kw)
            else:
                recv_.substitute(lambda hh, o: o, **kw)
            out = {"ok": 0}
        elif k == "both":
            kw = {}
            if case["md"]:
                kw["max_depth"] = case.get("mdv", 1)
            if case["pl"]:
                kw["precision_limit"] = Fraction(1, 2)
            recv_ = _receiver(case.get("recv"), h)
            if case["via"] == "explode":
                recv_.explode(**kw)
            else:
                recv_.substitute(lambda hh, o: o, **kw)
            out = {"ok": 0}
        elif k == "roll_lazy_fail":
            # a Roll built from a lazy iterable that hits a rejected call part-way: the construction fails and the outcomes
            # yielded before are as they were - unassociated, and usable in a valid roll afterwards
            from dyce.r import Roll
            outs = [RollOutcome(10 + j) for j in range(case["nbefore"])]

            def boom():
                if case["rej"] == "parity_frac":
                    return RollOutcome(H({Fraction(1, 2): 1}).is_even().total)
                if case["rej"] == "none_outcome":
                    return RollOutcome(None)
                return RollOutcome(H({1: -1}).total)
            if case["style"] == "generator":
                def g():
                    yield from outs
                    yield boom()
                lazy = g()
            elif case["style"] == "map":
                lazy = map(lambda x: x if isinstance(x, RollOutcome) else boom(), outs + [None])
            elif case["style"] == "filter":
                lazy = filter(lambda x: True if isinstance(x, RollOutcome) else boom(), outs + [None])
            else:
                lazy = (x if isinstance(x, RollOutcome) else boom() for x in outs + [None])
            try:
                Roll(r, lazy, ())
                out = {"exc": "Accepted"}
            except (ValueError, TypeError):
                good = Roll(r, outs, ())
                ok = all(o.source_roll is good for o in outs) and len(good) == len(outs) and repr(outs[0].source_roll) == repr(good)
                out = {"ok": 0} if ok else {"exc": "OutcomesBoundToDeadRoll"}
        elif k == "mech_reject":
            import evalcommon as ec
            answers, _ = ec.run_mech_impl(case["mech"], [tuple(c) for c in case["calls"]], use_foreach=case.get("foreach", False))
            out = {"ok": 0, "answers": answers}
        elif k == "adoptnone":
            # a None-valued outcome (a tombstone) re-parented: without sources it is as illegal as at construction
            from dyce.r import CoalesceMode, Roll
            x = RollOutcome(7)
            t = x.euthanize()
            srcs = [RollOutcome(1) for _ in range(case["ns"])]
            args = {"replace": (srcs, CoalesceMode.REPLACE), "append": (srcs, CoalesceMode.APPEND), "default": (srcs,)}[case["mode"]]
            if case["ns"] == 0 and case["mode"] == "default":
                args = ()
            if case["how"] == "outcome":
                got = t.adopt(*args)
                ok = got.value is None and len(got.sources) == (case["ns"] + (1 if case["mode"] == "append" else 0))
            else:
                roll = Roll(R.from_value(7), [t], ())
                got = roll.adopt(*args)
                ok = len(got) == 1 and got[0].value is None
            out = {"ok": 0} if ok else {"exc": "WrongRecord"}
        elif k == "rollnone":
            srcs = [RollOutcome(1) for _ in range(case["ns"])]
            style = case.get("style", "list")
            given = {"tuple": tuple(srcs), "list": srcs, "iterator": iter(srcs), "generator": (x for x in srcs),
                     "filter": filter(lambda x: True, srcs)}[style]
            ro = RollOutcome(None if case["none"] else 1, sources=given)
            out = {"ok": 0} if len(ro.sources) == case["ns"] else {"exc": "WrongSources"}
    except (ValueError, TypeError, IndexError, ZeroDivisionError) as e:
        out = {"exc": type(e).__name__}
    except Exception as e:  # noqa
        name = type(e).__name__
        out = {"exc": "TypeCheck" if "Beartype" in name else name}
    out["unchanged"] = snap() == before and (2 @ h).total == 16 and p.h(0).total == 64
    return out


def run_impl_custom(cases):
    off = [c for c in cases if not c["bt"]]
    on = [c for c in cases if c["bt"]]
    with cf.ThreadPoolExecutor(max_workers=2) as ex:
        f0 = ex.submit(common.run_impl, PID, off, {"NUMERARY_BEARTYPE": "0"}, 1500, "_off")
        f1 = ex.submit(common.run_impl, PID, on, {"NUMERARY_BEARTYPE": "1"}, 1500, "_on")
        (r0, e0), (r1, e1) = f0.result(), f1.result()
    if e0 or e1:
        return None, e0 or e1
    it0, it1 = iter(r0), iter(r1)
    return [next(it1) if c["bt"] else next(it0) for c in cases], None


def carg(a):
    k = a[0]
    if k == "int":
        return f"(AInt {cz(a[1])})"
    if k == "npint":
        return f"(ANpInt {cz(a[1])})"
    if k == "bool":
        return f"(ABool {'true' if a[1] else 'false'})"
    if k in ("float", "frac", "npfloat"):
        c = {"float": "AFloat", "frac": "AFrac", "npfloat": "ANpFloat"}[k]
        return f"({c} ({a[1]} # {a[2]}))"
    return "AStr" if k == "str" else "ANone"


def _cexc(r):
    e = r.get("exc")
    return e if e in ("ValueError", "TypeError", "IndexError", "TypeCheck") else None


def coq_check(case, r):
    k = case["kind"]
    bt = "true" if case["bt"] else "false"
    if "exc" in r and _cexc(r) is None:
        return "MISMATCH"
    if k in ("count", "count_repeated", "matmul_h", "matmul_p", "matmul_r"):
        g = "count_guard" if k.startswith("count") else "matmul_guard"
        exp = f"(Err {_cexc(r)})" if "exc" in r else f"(Ok {cz(r['ok'])})"
        return f"chk_guard_z ({g} {bt} {carg(case['arg'])}) {exp}"
    if k.startswith("index"):
        exp = f"(Err {_cexc(r)})" if "exc" in r else f"(Ok {cnat(r['ok'])})"
        return f"chk_guard_nat (index_guard {bt} 3 {carg(case['arg'])}) {exp}"
    if k in ("limit", "limit_reused"):
        return f"chk_limit_guard {bt} {carg(case['arg'])} {'false' if 'exc' in r else 'true'} {_cexc(r) or 'ValueError'}"
    if k == "parity":
        exp = f"(Err {_cexc(r)})" if "exc" in r else f"(Ok {'true' if r['ok'] else 'false'})"
        return f"chk_parity {carg(case['arg'])} {exp}"
    ok = "false" if "exc" in r else "true"
    e = _cexc(r) or "ValueError"
    if k == "within":
        return f"chk_guard_unit (within_guard ({case['lo'][0]} # {case['lo'][1]}) ({case['hi'][0]} # {case['hi'][1]})) {ok} {e}"
    if k == "both":
        return f"chk_guard_unit (both_limits_guard {'true' if case['md'] else 'false'} {'true' if case['pl'] else 'false'}) {ok} {e}"
    if k == "rollnone":
        return f"chk_guard_unit (roll_outcome_guard {'true' if case['none'] else 'false'} {cnat(case['ns'])}) {ok} {e}"
    if k == "badlimit":
        return None          # the limit grammar is covered by chk_limit_guard; here the receiver varies (oracle: always rejected)
    if k == "roll_lazy_fail":
        return None          # no model counterpart: decided by the oracle (the rejection leaves the outcomes usable)
    if k == "mech_reject":
        import evalcommon as ec
        from props.C06 import _cans
        exps = [_cans(a) for a in r.get("answers", [])]
        if "answers" not in r or any(x is None for x in exps):
            return "MISMATCH"
        return f"(Nat.eqb (chk_mech {ec.cmech(case['mech'])} None {ec.ccalls(case['calls'])} {clist(exps)}) 0)"
    if k == "adoptnone":
        nsrc = case["ns"] + (1 if case["mode"] == "append" else 0)
        return f"chk_guard_unit (roll_outcome_guard true {cnat(nsrc)}) {ok} {e}"


def coq_show(case):
    return None


def _ival(a):
    k = a[0]
    if k in ("int", "npint"):
        return a[1]
    if k == "bool":
        return int(a[1])
    if k in ("float", "frac", "npfloat"):
        q = Fraction(a[1], a[2])
        return int(q) if q.denominator == 1 else None
    return None


def oracle(case):
    """the documented behaviour, written independently of the model"""
    k = case["kind"]
    bt = case["bt"]
    if k in ("count", "count_repeated", "matmul_h", "matmul_p", "matmul_r"):
        a = case["arg"]
        v = _ival(a)
        if v is None:
            return {"exc": ["TypeCheck" if (bt and a[0] in ("str", "none")) else "TypeError"]}
        return {"exc": ["ValueError"]} if v < 0 else {"ok": v}
    if k.startswith("index"):
        a = case["arg"]
        if a[0] not in ("int", "npint", "bool"):
            return {"exc": ["TypeCheck", "TypeError"] if bt else ["TypeError"]}
        v = _ival(a)
        return {"ok": v % 3} if -3 <= v < 3 else {"exc": ["IndexError"]}
    if k in ("limit", "limit_reused"):
        a = case["arg"]
        if a[0] == "none":
            return {"ok": 0}
        if a[0] == "str":
            return {"exc": ["TypeCheck"] if bt else ["TypeError"]}
        if a[0] in ("int", "npint", "bool"):
            return {"exc": ["ValueError"]} if _ival(a) < -1 else {"ok": 0}
        q = Fraction(a[1], a[2])
        return {"ok": 0} if 0 < q < 1 else {"exc": ["ValueError"]}
    if k == "parity":
        v = _ival(case["arg"])
        if case["arg"][0] in ("str", "none"):
            return None
        return {"exc": ["TypeError"]} if v is None else {"ok": v % 2 == 0}
    if k == "within":
        return {"exc": ["ValueError"]} if Fraction(*case["lo"]) > Fraction(*case["hi"]) else {"ok": 0}
    if k == "both":
        return {"exc": ["ValueError"]} if (case["md"] and case["pl"]) else {"ok": 0}
    if k == "rollnone":
        return {"exc": ["ValueError"]} if (case["none"] and case["ns"] == 0) else {"ok": 0}
    if k == "adoptnone":
        return {"exc": ["ValueError"]} if (case["ns"] == 0 and case["mode"] != "append") else {"ok": 0}
    if k == "badlimit":
        return {"exc": ["ValueError"]}
    if k == "roll_lazy_fail":
        return {"ok": 0}
    if k == "mech_reject":
        import evalcommon as ec
        o = ec.oracle_calls(case["mech"], [tuple(c) for c in case["calls"]])
        return None if o is None else {"ok": 0, "answers": [{"dist": ec.dist_json(a["dist"])} if "dist" in a else a for a in o]}


def agree(case, r, o):
    if not r.get("unchanged"):
        return False
    if "exc" in o:
        return r.get("exc") in o["exc"]
    if "answers" in o:
        import evalcommon as ec
        oo = [{"dist": {Fraction(*k): Fraction(*v) for k, v in a["dist"]}} if "dist" in a else a for a in o["answers"]]
        return "answers" in r and ec.agree_answers(r["answers"], oo)
    return "ok" in r and r["ok"] == o["ok"]


def nontrivial(case, r):
    a = case.get("arg")
    return a is None or not (a[0] == "int" and a[1] >= 0)


def case_class(case, r):
    return f"{case['kind']}:{'bt' if case['bt'] else 'nobt'}:" + (r["exc"] if "exc" in r else "ok")


def extra_coverage():
    return {"exhaustive": True}
