"""Re-runs the quick check of every stored seeded change (seeded/<id>/patch.diff) against a scratch worktree of
/repo's HEAD with the patch applied, and records the outcome in meta.json (`caught_by`, `rechecked_at_commit`).
usage: seed_recheck.py [workers] [id-prefix ...]"""
import concurrent.futures as cf
import glob
import json
import os
import subprocess
import sys
from pathlib import Path

VERIF = Path("/verif")


def sh(cmd, cwd=None, env=None, timeout=3000):
    p = subprocess.run(cmd, shell=True, cwd=cwd, env=env, capture_output=True, text=True, timeout=timeout)
    return p.returncode, p.stdout + p.stderr


def one(d):
    meta = json.load(open(d + "meta.json"))
    sid, pid = meta["id"], meta["property"]
    wt = f"/tmp/recheck/wt_{sid}"
    scratch = f"/tmp/recheck/scratch_{sid}"
    sh(f"git -C /repo worktree remove --force {wt}")
    sh(f"git -C /repo worktree add -f {wt} HEAD")
    try:
        rc, out = sh(f"git -C {wt} apply {d}patch.diff")
        if rc != 0:
            return sid, "PATCH-DOES-NOT-APPLY", None
        env = dict(os.environ, DYCE_REPO=wt, VERIF_SCRATCH=scratch)
        try:
            rcc, oc = sh(f"./check {pid} --tier quick", cwd=str(VERIF), env=env, timeout=2400)
        except subprocess.TimeoutExpired:
            return sid, "CHECK-TIMED-OUT", None
        lines = [l for l in oc.splitlines() if l.startswith("VIOLATION")]
        kind = None
        for l in lines[:1]:
            try:
                kind = json.loads(Path(l.split("replay=")[1].split()[0]).read_text()).get("kind")
            except Exception:  # noqa
                pass
        head = sh("git -C /repo rev-parse --short HEAD")[1].strip()
        meta["caught_by"] = [pid] if rcc == 1 and lines else []
        meta["checks"] = {pid: {"exit": rcc, "violations": lines[:3], "kind": kind}}
        meta["rechecked_at_commit"] = head
        json.dump(meta, open(d + "meta.json", "w"), indent=1)
        return sid, ("caught" if meta["caught_by"] else "MISSED"), kind
    finally:
        sh(f"git -C /repo worktree remove --force {wt}")
        sh(f"rm -rf {scratch}")


def main():
    workers = int(sys.argv[1]) if len(sys.argv) > 1 else 3
    pref = sys.argv[2:]
    dirs = sorted(glob.glob(str(VERIF / "seeded") + "/*/"))
    if pref:
        dirs = [d for d in dirs if any(Path(d).name.startswith(p) for p in pref)]
    os.makedirs("/tmp/recheck", exist_ok=True)
    with cf.ThreadPoolExecutor(max_workers=workers) as ex:
        for sid, verdict, kind in ex.map(one, dirs):
            print(sid, verdict, kind, flush=True)
    sh("git -C /repo worktree prune")


if __name__ == "__main__":
    main()
