"""Runs a sequence of queries in ONE fresh interpreter and prints the typed answers (C13).
A query is {"q": kind, ...objects...}; objects are typed histograms: [[type, num, den], count] items."""
import json
import os
import sys
import warnings

if hasattr(sys, "set_int_max_str_digits"):
    sys.set_int_max_str_digits(0)   # exact counts can have thousands of digits
from fractions import Fraction

warnings.simplefilter("ignore")


def py_out(t):
    typ, n, d = t
    if typ == "int":
        return int(Fraction(n, d))
    if typ == "float":
        return n / d
    if typ == "bool":
        return bool(n)
    return Fraction(n, d)


POP = []   # the shared population of a history: objects that live across its queries


def mk_h(items):
    from dyce import H
    if isinstance(items, dict):
        return POP[items["ref"]]
    return H({py_out(o): c for o, c in items})


def t_out(o):
    f = Fraction(o)
    return [type(o).__name__, f.numerator, f.denominator]


def t_hist(h):
    return [[t_out(o), c] for o, c in h.items() if c > 0]


def which_of(w):
    return tuple((x["i"] if "i" in x else slice(*x["s"])) for x in w)


def answer(q):
    from dyce import H, P
    k = q["q"]
    try:
        if k == "h":
            p = P(*[mk_h(d) for d in q["dice"]])
            return {"ok": t_hist(p.h(*which_of(q["which"])))}
        if k == "rwc":
            p = P(*[mk_h(d) for d in q["dice"]])
            agg = {}
            for roll, c in p.rolls_with_counts(*which_of(q["which"])):
                key = json.dumps([t_out(x) for x in roll])
                agg[key] = agg.get(key, 0) + c
            return {"ok": sorted([json.loads(kk), v] for kk, v in agg.items() if v > 0)}
        if k == "umap_lowest":
            # a relabelling that folds outcomes together, then the reduction of the RESULT
            a = mk_h(q["a"])
            f = {"abs": abs, "even": lambda o: o % 2 == 0, "half": lambda o: o // 2, "neg": lambda o: -o}[q["f"]]
            r = a.umap(f)
            low = r.lowest_terms()
            import math
            g = math.gcd(*[c for c in low.counts()]) if len(low) else 1
            return {"ok": [t_hist(low), g, r == low, hash(r) == hash(low), len({r, low})]}
        if k == "rwc_peek":
            # a consumer that stops early (peeks at the first rolls, breaks out of a loop, any(), ...)
            p = P(*[mk_h(d) for d in q["dice"]])
            it = iter(p.rolls_with_counts(*which_of(q["which"])))
            got = 0
            for _ in range(q["take"]):
                try:
                    next(it)
                    got += 1
                except StopIteration:
                    break
            del it
            return {"ok": "peeked"}
        if k == "order":
            return {"ok": t_hist(mk_h(q["h"]).order_stat_for_n_at_pos(q["n"], q["pos"]))}
        if k == "order_alias":
            h = mk_h(q["h"])
            h.order_stat_for_n_at_pos(q["n0"], 0)
            return {"ok": t_hist(H(h).order_stat_for_n_at_pos(q["n"], q["pos"]))}
        if k == "app":
            p = P(*[mk_h(d) for d in q["dice"]])
            return {"ok": t_hist(p.appearances_in_rolls(py_out(q["o"])))}
        if k == "eq":
            a, b = mk_h(q["a"]), mk_h(q["b"])
            return {"ok": [a == b, a != b, hash(a) == hash(b)]}
        if k == "hasheq":      # hashing BEFORE any comparison / reduction of these objects
            a, b = mk_h(q["a"]), mk_h(q["b"])
            return {"ok": hash(a) == hash(b)}
        if k == "setlen":
            return {"ok": len({mk_h(x) for x in q["objs"]})}
        if k == "dictget":
            d = {mk_h(x): i for i, x in enumerate(q["objs"])}
            return {"ok": [d.get(mk_h(x), -1) for x in q["probe"]]}
        if k == "homog":
            return {"ok": P(*[mk_h(x) for x in q["objs"]]).is_homogeneous()}
        if k == "items":
            return {"ok": [[t_out(o), c] for o, c in mk_h(q["a"]).items()]}
        if k == "lowest":
            a = mk_h(q["a"])
            if q.get("twice"):
                a.lowest_terms()
                hash(a)
            return {"ok": t_hist(a.lowest_terms())}
    except Exception as e:  # noqa
        return {"exc": type(e).__name__}
    return {"exc": "BadQuery"}


def main():
    import resource
    import signal
    try:
        resource.setrlimit(resource.RLIMIT_AS, (8 << 30, 8 << 30))
    except (ValueError, OSError):
        pass
    signal.signal(signal.SIGALRM, signal.SIG_DFL)
    signal.alarm(300)            # a whole history never takes minutes on a correct library
    import dyce
    repo = os.environ.get("DYCE_REPO", "/repo")
    assert os.path.realpath(dyce.__file__).startswith(os.path.realpath(repo) + os.sep)
    queries = json.load(sys.stdin)
    if isinstance(queries, dict):
        POP.extend(mk_h(o) for o in queries["objects"])
        queries = queries["queries"]
    print(json.dumps([answer(q) for q in queries]))


if __name__ == "__main__":
    main()
