"""Validates a seeded change produced by an independent agent and runs the property's check on it.
usage: seed_eval.py Cxx mK [--tier quick]     (reads /tmp/seed/Cxx.out/mK.diff, mK_demo.py, mK_note.txt)"""
import json
import os
import shutil
import subprocess
import sys
from pathlib import Path

VERIF = Path("/verif")


def sh(cmd, cwd=None, env=None, timeout=1800):
    p = subprocess.run(cmd, shell=True, cwd=cwd, env=env, capture_output=True, text=True, timeout=timeout)
    return p.returncode, (p.stdout + p.stderr)


def main():
    pid, m = sys.argv[1], sys.argv[2]
    src = Path(f"/tmp/seed/{pid}.out")
    diff, demo, note = src / f"{m}.diff", src / f"{m}_demo.py", src / f"{m}_note.txt"
    wt = Path(f"/tmp/seed/verify_{pid}_{m}")
    sh(f"git -C /repo worktree remove --force {wt}")
    rc, out = sh(f"git -C /repo worktree add -f {wt} HEAD")
    base = sh("git -C /repo rev-parse --short HEAD")[1].strip()
    meta = {"property": pid, "id": f"{pid}-{m}", "applies_to_commit": base, "note": note.read_text() if note.exists() else ""}
    try:
        env = dict(os.environ, PYTHONPATH=str(wt), PYTHONDONTWRITEBYTECODE="1")
        rc0, o0 = sh(f"/venv/bin/python {demo}", cwd=str(wt), env=env)
        meta["demo_on_clean_exit"] = rc0
        rc, out = sh(f"git -C {wt} apply {diff}")
        meta["applies"] = rc == 0
        if rc != 0:
            meta["error"] = out[-500:]
            print(json.dumps(meta, indent=1))
            return 2
        rct, ot = sh("/venv/bin/python -m pytest -q -p no:cacheprovider --timeout=900 2>&1 | tail -3", cwd=str(wt))
        meta["tests"] = ot.strip().splitlines()[-1] if ot.strip() else ""
        meta["tests_pass"] = " passed" in ot and " failed" not in ot and " error" not in ot.lower()
        rc1, o1 = sh(f"/venv/bin/python {demo}", cwd=str(wt), env=env)
        meta["demo_on_changed_exit"] = rc1
        meta["demo_output"] = o1[-600:]
    finally:
        sh(f"git -C /repo worktree remove --force {wt}")
    meta["confirmed"] = bool(meta.get("tests_pass") and meta.get("demo_on_changed_exit") == 1 and meta.get("demo_on_clean_exit") == 0)
    # run the registered checks against a scratch worktree with the change applied (same code path as
    # /repo: the checks import dyce from $DYCE_REPO); outputs go to a scratch directory
    results = {}
    if meta["confirmed"]:
        wt2 = Path(f"/tmp/seed/run_{pid}_{m}")
        sh(f"git -C /repo worktree remove --force {wt2}")
        sh(f"git -C /repo worktree add -f {wt2} HEAD")
        rc, out = sh(f"git -C {wt2} apply {diff}")
        scratch = Path(f"/tmp/seed/scratch_{pid}_{m}")
        env2 = dict(os.environ, DYCE_REPO=str(wt2), VERIF_SCRATCH=str(scratch))
        try:
            checks = sys.argv[3].split(",") if len(sys.argv) > 3 else [pid]
            for c in checks:
                rcc, oc = sh(f"./check {c} --tier quick", cwd=str(VERIF), env=env2, timeout=3000)
                lines = [l for l in oc.splitlines() if l.startswith("VIOLATION")]
                results[c] = {"exit": rcc, "violations": lines[:3]}
                for l in lines[:1]:
                    rp = l.split("replay=")[1].split()[0]
                    try:
                        d = json.loads(Path(rp).read_text())
                        results[c]["kind"] = d.get("kind")
                        results[c]["case"] = json.dumps(d.get("case"))[:400]
                    except Exception:
                        pass
        finally:
            sh(f"git -C /repo worktree remove --force {wt2}")
            sh(f"rm -rf {scratch}")
    meta["checks"] = results
    meta["caught_by"] = [c for c, r in results.items() if r["exit"] == 1]
    dst = VERIF / "seeded" / f"{pid}-{m}"
    if meta["confirmed"]:
        dst.mkdir(parents=True, exist_ok=True)
        shutil.copy(diff, dst / "patch.diff")
        shutil.copy(demo, dst / "demo.py")
        meta["what_i_ran"] = ("scratch worktree: demo on clean tree (exit 0), git apply patch, full pytest (250 passed), demo (exit 1); "
                              "then a second scratch worktree with the patch applied, DYCE_REPO=<worktree> ./check <ids> --tier quick, worktree removed")
        (dst / "meta.json").write_text(json.dumps(meta, indent=1))
    print(json.dumps({k: meta[k] for k in ("id", "confirmed", "tests", "demo_on_clean_exit", "demo_on_changed_exit", "caught_by")}, indent=None))
    for c, r in results.items():
        print("  ", c, r.get("exit"), r.get("kind"), (r.get("case") or "")[:200])
    return 0


if __name__ == "__main__":
    sys.exit(main())
