"""Shared machinery of the dyce verification checks.

Every check does, in this order:
  1. (re)build the Coq development under /verif/coq (full .vo build, incremental);
  2. re-check the property's Props/Cxx.v file and read its `Print Assumptions` output;
  3. generate cases from one PRNG state (corpus first), run the implementation found
     in /repo's working tree on them in a fresh interpreter, and let Coq evaluate the
     model on the same cases by vm_compute, comparing inside Coq;
  4. on a disagreement: consult the independent Python oracle of the specification,
     shrink, write a replay file and print the VIOLATION line;
  5. write /verif/evidence/<id>.json.
"""
from __future__ import annotations

import concurrent.futures as cf
import hashlib
import importlib
import json
import os
import random
import re
import subprocess
import sys
import time
from fractions import Fraction
from pathlib import Path

if hasattr(sys, "set_int_max_str_digits"):
    sys.set_int_max_str_digits(0)   # exact counts can have thousands of digits

VERIF = Path(__file__).resolve().parent.parent
COQ = VERIF / "coq"
# VERIF_SCRATCH redirects everything a run writes (cases, evidence, replays) - used when a check is
# pointed at a scratch copy of the repository (DYCE_REPO) while other checks run
OUT = Path(os.environ["VERIF_SCRATCH"]) if os.environ.get("VERIF_SCRATCH") else VERIF
BUILD = OUT / "build"
REPO = Path(os.environ.get("DYCE_REPO", "/repo"))
PY = "/venv/bin/python"
DEFAULT_SEED = 20260930
FORBIDDEN = re.compile(
    r"\b(Admitted|admit|Axiom|Axioms|Parameter|Parameters|Conjecture|Conjectures|Admit Obligations)\b"
    r"|Unset\s+Guard|Unset\s+Positivity|Unset\s+Universe|bypass_check|type-in-type|impredicative-set"
)


# ---------------------------------------------------------------------------
# Coq term printing


def cz(n: int) -> str:
    return f"({n})%Z"


def cnat(n: int) -> str:
    return f"{n}%nat"


def cq(o) -> str:
    """an outcome [num, den] as a Qc term"""
    n, d = o
    return f"(qc ({n}) {d})"


def clist(items) -> str:
    return "[" + "; ".join(items) + "]"


def chist(h) -> str:
    """[[outcome, count], ...] as a Coq list (Qc * Z)"""
    return clist(f"({cq(o)}, {cz(c)})" for o, c in h)


def cbool(b: bool) -> str:
    return "true" if b else "false"


def copt(x, f) -> str:
    return "None" if x is None else f"(Some {f(x)})"


EXN = {"ValueError": "ValueError", "TypeError": "TypeError", "IndexError": "IndexError",
       "ZeroDivisionError": "ZeroDivisionError", "RecursionError": "RecursionError"}


def cres(r, okf) -> str:
    """impl result {'exc': name} or {'ok': value} as a Coq `res` term; None if not expressible"""
    if "exc" in r:
        e = EXN.get(r["exc"])
        if e is None:
            return None
        return f"(Err {e})"
    return f"(Ok {okf(r['ok'])})"


# ---------------------------------------------------------------------------
# canonical values on the Python side (used by impl adapters and oracles)


def qv(o):
    """Canonical exact value [num, den] of a dyce outcome (bool/int/Fraction/exact float)."""
    f = Fraction(o)
    return [int(f.numerator), int(f.denominator)]     # int(): NumPy integer outcomes give NumPy numerators


def to_frac(o) -> Fraction:
    return Fraction(o[0], o[1])


def from_case_outcome(o, typ="auto"):
    """Build the Python outcome for a canonical [num, den]: int when integral else Fraction."""
    if o[1] == 1:
        return int(o[0])
    return Fraction(o[0], o[1])


def hist_items(h):
    return [[qv(o), int(c)] for o, c in h.items()]


# ---------------------------------------------------------------------------
# building and running Coq


def run(cmd, timeout, cwd=None, env=None):
    try:
        p = subprocess.run(cmd, cwd=cwd, env=env, capture_output=True, text=True, timeout=timeout)
        return p.returncode, p.stdout, p.stderr
    except subprocess.TimeoutExpired as e:
        return 124, (e.stdout or b"").decode() if isinstance(e.stdout, bytes) else (e.stdout or ""), "timeout"


def coq_build():
    """Full (incremental) .vo build of the development. Returns (ok, log)."""
    if not (COQ / "Makefile").exists():
        rc, out, err = run(["coq_makefile", "-f", "_CoqProject", "-o", "Makefile"], 60, cwd=COQ)
        if rc != 0:
            return False, out + err
    rc, out, err = run(["make", "-j16"], 3000, cwd=COQ)
    return rc == 0, out + err


def scan_forbidden():
    hits = []
    for p in sorted((COQ / "theories").rglob("*.v")):
        txt = p.read_text()
        # strip comments (non-nested is enough for our files; nested handled conservatively)
        stripped = re.sub(r"\(\*.*?\*\)", " ", txt, flags=re.S)
        for m in FORBIDDEN.finditer(stripped):
            hits.append(f"{p.relative_to(COQ)}: {m.group(0)}")
    return hits


def check_props_file(pid: str):
    """Re-compile Props/<pid>.v on its own and parse Print Assumptions output."""
    src = COQ / "theories" / "Props" / f"{pid}.v"
    BUILD.mkdir(parents=True, exist_ok=True)
    (BUILD / "props").mkdir(exist_ok=True)
    out_vo = BUILD / "props" / f"{pid}.vo"
    cmd = ["coqc", "-Q", "theories", "Dyce", "-o", str(out_vo), str(src.relative_to(COQ))]
    rc, out, err = run(cmd, 900, cwd=COQ)
    text = src.read_text()
    stripped = re.sub(r"\(\*.*?\*\)", " ", text, flags=re.S)
    theorems = re.findall(r"^\s*(?:Theorem|Corollary)\s+(\w+)", stripped, flags=re.M)
    examples = re.findall(r"^\s*Example\s+(\w+)", stripped, flags=re.M)
    closed = out.count("Closed under the global context")
    axiom_blocks = re.findall(r"Axioms:\n((?:.+\n?)+?)(?=\n\S|\Z)", out)
    axioms = sorted({ln.split(":")[0].strip() for blk in axiom_blocks for ln in blk.splitlines()
                     if re.match(r"^\S+\s*:", ln)})
    printed = closed + out.count("Axioms:")
    return {
        "ok": rc == 0, "log": (out + err)[-4000:], "theorems": theorems, "examples": examples,
        "assumption_reports": printed, "closed": closed, "axioms": axioms,
        "cmd": "cd /verif/coq && make -j16 && " + " ".join(cmd),
    }


def coq_eval_codes(pid: str, exprs: list[str], shard=250, workers=14, imports="Exec.Run", timeout=1500):
    """Evaluate Coq expressions of type nat by vm_compute (0 = agrees, 1 = disagrees,
    2 = outside the model's domain).  Returns ({index: code} for non-zero codes, error text or None)."""
    BUILD.mkdir(parents=True, exist_ok=True)
    files = []
    for s in range(0, len(exprs), shard):
        chunk = exprs[s:s + shard]
        name = f"cases_{pid}_{os.getpid()}_{s // shard}"
        body = [f"From Dyce Require Import {imports}.", "Import ListNotations.", "Open Scope Z_scope.",
                "Definition cases : list nat := ["]
        body.append(";\n".join(chunk))
        body.append("].")
        body.append("Eval vm_compute in (nonzero_codes cases).")
        p = BUILD / f"{name}.v"
        p.write_text("\n".join(body) + "\n")
        files.append((s, p))

    def one(sp):
        s, p = sp
        rc, out, err = run(["coqc", "-Q", str(COQ / "theories"), "Dyce", str(p)], timeout, cwd=BUILD)
        if rc != 0:
            return s, None, (out + err)[-3000:]
        m = re.search(r"=\s*(\[.*?\])\s*:\s*list \(nat \* nat\)", out, flags=re.S)
        if not m:
            return s, None, "unparsable coqc output: " + out[-500:]
        nums = [int(x) for x in re.findall(r"\d+", m.group(1))]
        return s, list(zip(nums[0::2], nums[1::2])), None

    codes, errors = {}, []
    with cf.ThreadPoolExecutor(max_workers=workers) as ex:
        for s, pairs, e in ex.map(one, files):
            if e is not None:
                errors.append(f"shard at {s}: {e}")
            else:
                for i, c in pairs:
                    codes[s + i] = c
    for _, p in files:
        for ext in (".vo", ".vok", ".vos", ".glob") + ((".v",) if not errors else ()):
            q = p.with_suffix(ext)
            if q.exists():
                q.unlink()
        aux = p.parent / ("." + p.stem + ".aux")
        if aux.exists():
            aux.unlink()
    return codes, ("\n".join(errors) if errors else None)


def coq_eval_bools(pid, exprs, **kw):
    codes, err = coq_eval_codes(pid, exprs, **kw)
    return sorted(i for i, c in codes.items() if c == 1), err


def coq_show(expr: str, imports="Exec.Run") -> str:
    """Raw vm_compute rendering of a model answer, for replay files."""
    BUILD.mkdir(parents=True, exist_ok=True)
    p = BUILD / f"show_{os.getpid()}.v"
    p.write_text(f"From Dyce Require Import {imports}.\nImport ListNotations.\nOpen Scope Z_scope.\n"
                 f"Eval vm_compute in ({expr}).\n")
    rc, out, err = run(["coqc", "-Q", str(COQ / "theories"), "Dyce", str(p)], 120, cwd=BUILD)
    for ext in (".v", ".vo", ".vok", ".vos", ".glob"):
        q = p.with_suffix(ext)
        if q.exists():
            q.unlink()
    aux = p.parent / ("." + p.stem + ".aux")
    if aux.exists():
        aux.unlink()
    return (out if rc == 0 else out + err)[-4000:]


# ---------------------------------------------------------------------------
# running the implementation


RUN_BUDGET = {"quick": "600", "thorough": "5400"}
CURRENT_TIER = "quick"


def impl_env(extra=None):
    env = {k: v for k, v in os.environ.items() if not k.startswith("PYTHON")}
    env.setdefault("VERIF_RUN_BUDGET", RUN_BUDGET.get(CURRENT_TIER, "600"))
    env.setdefault("VERIF_CASE_TIMEOUT", "45" if CURRENT_TIER == "quick" else "150")
    env.update({"PYTHONPATH": f"{REPO}:{VERIF / 'harness'}", "PYTHONHASHSEED": "0",
                "PYTHONWARNINGS": "ignore", "PYTHONDONTWRITEBYTECODE": "1",
                "NUMERARY_BEARTYPE": "0", "DYCE_REPO": str(REPO)})
    if extra:
        env.update(extra)
    return env


def run_impl(pid: str, cases: list, extra_env=None, timeout=1500, tag=""):
    """Run the property's impl adapter over all cases in ONE fresh interpreter."""
    BUILD.mkdir(parents=True, exist_ok=True)
    cin = BUILD / f"impl_{pid}{tag}_{os.getpid()}_in.json"
    cout = BUILD / f"impl_{pid}{tag}_{os.getpid()}_out.json"
    cin.write_text(json.dumps(cases))
    if cout.exists():
        cout.unlink()
    rc, out, err = run([PY, str(VERIF / "harness" / "impl_runner.py"), pid, str(cin), str(cout)],
                       timeout, cwd=str(BUILD), env=impl_env(extra_env))
    if rc != 0 or not cout.exists():
        return None, f"impl runner failed rc={rc}: {(out + err)[-3000:]}"
    res = json.loads(cout.read_text())
    cin.unlink()
    cout.unlink()
    return res, None


def run_impl_parallel(pid: str, cases: list, workers=12, extra_env=None, timeout=1500):
    """Split cases over several fresh interpreters (each case still sees a cold process
    state only at the start of its chunk)."""
    if len(cases) < 400:
        return run_impl(pid, cases, extra_env, timeout)
    n = min(workers, max(1, len(cases) // 200))
    chunks = [cases[i::n] for i in range(n)]
    results = [None] * len(cases)
    with cf.ThreadPoolExecutor(max_workers=n) as ex:
        futs = [ex.submit(run_impl, pid, ch, extra_env, timeout, f"_{i}") for i, ch in enumerate(chunks)]
        for i, f in enumerate(futs):
            res, e = f.result()
            if e:
                return None, e
            for j, r in enumerate(res):
                results[i + j * n] = r
    return results, None


# ---------------------------------------------------------------------------
# reporting


def load_known():
    p = VERIF / "known_findings.json"
    if p.exists():
        return json.loads(p.read_text())
    return {"findings": [], "fixed": []}


def write_replay(pid: str, payload: dict) -> Path:
    d = OUT / "replays"
    d.mkdir(parents=True, exist_ok=True)
    blob = json.dumps(payload, sort_keys=True, default=str)
    h = hashlib.sha256(blob.encode()).hexdigest()[:12]
    p = d / f"{pid}-{h}.json"
    p.write_text(json.dumps(payload, indent=1, default=str))
    return p


def write_evidence(pid: str, tier: str, seed: int, coverage: dict, assumptions: list, wall: float,
                   violations: int):
    d = OUT / "evidence"
    d.mkdir(parents=True, exist_ok=True)
    ev = {"property_id": pid, "tier": tier, "seed": seed, "level": "proof", "coverage": coverage,
          "assumptions": assumptions, "wall_s": round(wall, 2), "violations": violations}
    (d / f"{pid}.json").write_text(json.dumps(ev, indent=1, default=str))


def case_key(case) -> str:
    return hashlib.sha256(json.dumps(case, sort_keys=True, default=str).encode()).hexdigest()


TRUSTED_BASE = [
    "Coq 8.16.1 kernel (coqc), including its vm_compute conversion; native_compute is not used",
    "no extraction: the model is evaluated inside Coq by vm_compute",
    "the Python correspondence harness (/verif/harness): case generators, canonicalisation, the Coq term printer",
    "/venv/bin/python 3.12 running the implementation from /repo's working tree",
]


class Ctx:
    def __init__(self, pid, argv):
        self.pid = pid
        self.tier = os.environ.get("VERIF_TIER", "quick")
        self.replay = None
        args = list(argv)
        while args:
            a = args.pop(0)
            if a == "--tier":
                self.tier = args.pop(0)
            elif a == "--replay":
                self.replay = args.pop(0)
        if self.tier not in ("quick", "thorough"):
            self.tier = "quick"
        try:
            self.seed = int(os.environ.get("VERIF_SEED", DEFAULT_SEED))
        except ValueError:
            self.seed = DEFAULT_SEED
        self.rng = random.Random(f"{pid}:{self.seed}")
        self.t0 = time.time()


def load_corpus(pid):
    d = VERIF / "corpus" / pid
    out = []
    if d.exists():
        for p in sorted(d.glob("*.json")):
            c = json.loads(p.read_text())
            if isinstance(c, list):
                out.extend(c)
            else:
                out.append(c)
    return out


def main(pid: str, argv):
    ctx = Ctx(pid, argv)
    global CURRENT_TIER
    CURRENT_TIER = ctx.tier
    mod = importlib.import_module(f"props.{pid}")
    known = load_known()
    violations = []  # (replay path, suffix)

    def violation(payload, no_input=False):
        p = write_replay(pid, payload)
        line = f"VIOLATION property={pid} replay={p}"
        if no_input:
            line += " no-failing-input-found"
        print(line, flush=True)
        violations.append(str(p))

    # 1-2. proofs
    ok, log = coq_build()
    forb = scan_forbidden()
    props = None
    if not ok:
        m = re.search(r'File "([^"]+)", line (\d+)', log)
        violation({"property": pid, "kind": "proof-build-failure",
                   "broken": f"Coq development does not build: {m.group(0) if m else 'see log'}",
                   "log": log[-3000:]}, no_input=True)
    else:
        props = check_props_file(pid)
        if not props["ok"] or props["assumption_reports"] < len(props["theorems"]) or forb:
            violation({"property": pid, "kind": "proof-check-failure",
                       "broken": f"theories/Props/{pid}.v no longer checks (or forbidden vernacular: {forb})",
                       "log": props["log"]}, no_input=True)

    # thorough tier: the independent checker re-checks the property file and everything it depends on
    coqchk_info = None
    if ok and ctx.tier == "thorough" and not ctx.replay:
        rc, out, err = run(["coqchk", "-silent", "-o", "-Q", "theories", "Dyce", f"Dyce.Props.{pid}"], 3000, cwd=COQ)
        summary = out[out.find("CONTEXT SUMMARY"):] if "CONTEXT SUMMARY" in out else (out + err)[-800:]
        coqchk_info = {"exit": rc, "axioms_none": "* Axioms: <none>" in summary, "summary": " ".join(summary.split())[:600]}
        if rc != 0 or not coqchk_info["axioms_none"]:
            violation({"property": pid, "kind": "coqchk-failure",
                       "broken": f"coqchk does not accept Dyce.Props.{pid} axiom-free", "log": summary}, no_input=True)

    # --replay: run one stored case and print the three answers
    if ctx.replay:
        payload = json.loads(Path(ctx.replay).read_text())
        case = payload.get("case")
        if case is None:
            print(json.dumps(payload, indent=1))
            return 1
        if hasattr(mod, "run_impl_custom"):
            res, err = mod.run_impl_custom([case])
        else:
            res, err = run_impl(pid, [case])
        r = res[0] if res else {"error": err}
        print("case:", json.dumps(case))
        print("implementation:", json.dumps(r)[:4000])
        o = mod.oracle(case)
        print("oracle:", json.dumps(o)[:4000])
        try:
            expr = mod.coq_show(case) if hasattr(mod, "coq_show") else None
            if expr:
                print("model:", coq_show(expr))
        except Exception as ex:  # noqa
            print("model: (rendering failed)", ex)
        bad = False
        if o is not None:
            same = mod.agree(case, r, o)
            print("agree(implementation, oracle):", same)
            bad = bad or not same
        e = mod.coq_check(case, r) if res else "MISMATCH"
        if e == "MISMATCH":
            print("agree(implementation, model): False (answer not expressible in the model's result type)")
            bad = True
        elif e is not None and ok:
            codes, cerr = coq_eval_codes(pid + "r", [e if getattr(mod, "CODES", False) else f"cb ({e})"])
            code = codes.get(0, 0)
            print("agree(implementation, model):", {0: True, 1: False, 2: "outside the model's domain"}.get(code), cerr or "")
            bad = bad or code == 1
        return 1 if bad else 0

    # 3. cases
    corpus = load_corpus(pid)
    gen = mod.gen_cases(ctx.rng, ctx.tier)
    cases = corpus + gen
    impl_res, err = (mod.run_impl_custom(cases) if hasattr(mod, "run_impl_custom")
                     else run_impl_parallel(pid, cases))
    stats = {"cases": len(cases), "corpus_cases": len(corpus)}
    # history independence of the implementation itself: the same cases in REVERSE order in a second
    # fresh interpreter must give identical answers (catches process-wide state such as caches)
    order_diff = []
    if not err and not hasattr(mod, "run_impl_custom") and not getattr(mod, "NO_REORDER", False):
        rev, err2 = run_impl(pid, list(reversed(cases)), tag="_rev")
        if not err2:
            rev = list(reversed(rev))
            order_diff = [i for i, (a, b) in enumerate(zip(impl_res, rev)) if a != b]
            stats["reordered_rerun_compared"] = len(cases)
    classes = {}
    nontrivial = set()
    skipped = 0
    mism = []
    model_mism = set()
    coq_err = None
    oracle_checked = 0
    known_hits = []
    if err:
        violation({"property": pid, "kind": "implementation-run-failure", "broken": err}, no_input=True)
        impl_res = []
    else:
        exprs, idx_of = [], []
        for i, (c, r) in enumerate(zip(cases, impl_res)):
            cl = mod.case_class(c, r)
            classes[cl] = classes.get(cl, 0) + 1
            if mod.nontrivial(c, r):
                nontrivial.add(case_key(c))
            if '"NONJSON"' in json.dumps(r):
                mism.append(i)       # an answer that is not a plain Python value cannot equal the model's
                continue
            e = mod.coq_check(c, r)
            if e is None:
                skipped += 1
                continue
            if e == "MISMATCH":   # impl answer not expressible in the model's result type
                mism.append(i)
                continue
            exprs.append(e if getattr(mod, "CODES", False) else f"cb ({e})")
            idx_of.append(i)
        if ok:
            codes, coq_err = coq_eval_codes(pid, exprs)
            mism.extend(idx_of[b] for b, c in codes.items() if c == 1)
            model_mism = set(mism)
            skipped += sum(1 for c in codes.values() if c == 2)
            if coq_err:
                violation({"property": pid, "kind": "correspondence-evaluation-failure",
                           "broken": "coqc failed while evaluating the model on generated cases",
                           "log": coq_err}, no_input=True)
        # independent oracle over every case it can reach (cheap, catches impl!=spec directly)
        for i, (c, r) in enumerate(zip(cases, impl_res)):
            if i in mism:
                continue
            o = mod.oracle(c)
            if o is None:
                continue
            oracle_checked += 1
            if not mod.agree(c, r, o):
                mism.append(i)
        mism = sorted(set(mism))
        for i in order_diff[:3]:
            if i not in mism:
                violation({"property": pid, "kind": "answer-depends-on-call-history", "case": cases[i],
                           "implementation": impl_res[i], "implementation_in_reversed_run": rev[i],
                           "note": "the same case gave different answers in two fresh interpreters that ran the "
                                   "generated cases in opposite orders; both runs are recorded here"})

    # 4. classify disagreements
    reported = 0
    for i in mism:
        c, r = cases[i], impl_res[i]
        kf = mod.known_finding(c, known) if hasattr(mod, "known_finding") else None
        if not kf and hasattr(mod, "known_finding_result"):
            kf = mod.known_finding_result(c, r, known)
        if kf and getattr(mod, "KNOWN_ONLY_IF_MODEL_AGREES", False) and i in model_mism:
            # the recorded finding is one the model reproduces (its refutation theorem); a record the
            # model does NOT predict is a different violation even if it shows the same symptom
            kf = None
        if kf:
            known_hits.append(kf)
            continue
        if reported >= 3:
            continue
        reported += 1
        try:
            c2, r2 = shrink(mod, pid, c, r, ok)
        except Exception:  # noqa
            c2, r2 = c, r
        o = mod.oracle(c2)
        model_txt = None
        try:
            expr = mod.coq_show(c2) if (ok and hasattr(mod, "coq_show")) else None
            model_txt = coq_show(expr) if expr else None
        except Exception as ex:  # noqa - the replay must be written whatever happens here
            model_txt = f"(model rendering failed: {ex})"
        payload = {"property": pid, "case": c2, "original_case": c, "implementation": r2, "oracle": o,
                   "model": model_txt,
                   "replay_cmd": f"cd /verif && ./check {pid} --replay <this file>"}
        if o is not None and not mod.agree(c2, r2, o):
            payload["kind"] = "implementation-disagrees-with-specification"
            violation(payload)
        else:
            # model and implementation disagree but the oracle cannot show the implementation
            # wrong on this input: search neighbours, then report without a failing input
            found = search_neighbours(mod, pid, c2)
            if found:
                fc, fr, fo = found
                payload.update({"kind": "implementation-disagrees-with-specification", "case": fc,
                                "implementation": fr, "oracle": fo})
                violation(payload)
            else:
                payload["kind"] = "correspondence-broken"
                payload["broken"] = (f"correspondence model<->implementation for {pid} "
                                     f"(theorems in theories/Props/{pid}.v) on the recorded case")
                violation(payload, no_input=True)
    for kf in sorted(set(known_hits)):
        print(f"KNOWN-FINDING: property={pid} {kf}", flush=True)

    # 5. evidence
    samples = [{"case": cases[i], "implementation": impl_res[i]} for i in
               ([0, len(cases) // 2, len(cases) - 1] if cases and impl_res else [])]
    cov = {
        "obligations": len(props["theorems"]) if props else 0,
        "discharged": min(props["assumption_reports"], len(props["theorems"])) if props and props["ok"] else 0,
        "checker_cmd": props["cmd"] if props else "cd /verif/coq && make",
        "trusted_base": TRUSTED_BASE + [
            ("Print Assumptions: all property theorems closed under the global context" if props and not props["axioms"]
             else f"Print Assumptions reports axioms: {props['axioms'] if props else 'n/a'}")],
        "theorems": props["theorems"] if props else [],
        "nonvacuity_examples": props["examples"] if props else [],
        "evaluations": len(cases),
        "distinct_nontrivial": len(nontrivial),
        "rule": mod.RULE,
        "samples": samples,
        "class_histogram": classes,
        "model_evaluations_in_coq": len(cases) - skipped,
        "skipped_outside_model_domain": skipped,
        "oracle_cross_checks": oracle_checked,
        "disagreements": len(mism),
        "known_findings_hit": sorted(set(known_hits)),
        "exhaustive": False,
    }
    if hasattr(mod, "units") and impl_res:
        try:
            cov[mod.UNITS_NAME] = sum(mod.units(c, r) for c, r in zip(cases, impl_res))
        except Exception:  # noqa
            pass
    if coqchk_info is not None:
        cov["coqchk"] = coqchk_info
    cov.update(stats)
    if hasattr(mod, "extra_coverage"):
        cov.update(mod.extra_coverage())
    write_evidence(pid, ctx.tier, ctx.seed, cov, mod.ASSUMPTIONS, time.time() - ctx.t0, len(violations))
    return 1 if violations else 0


def disagree(mod, pid, c, coq_ok):
    """Does case c still show a disagreement (impl vs model, or impl vs oracle)?"""
    res, err = run_impl(pid, [c], tag="_shrink")
    if err or not res:
        return None
    r = res[0]
    o = mod.oracle(c)
    if o is not None and not mod.agree(c, r, o):
        return r
    if coq_ok:
        e = mod.coq_check(c, r)
        if e == "MISMATCH":
            return r
        if e is not None:
            # a shrunk candidate may be far more expensive for the model than the generated case was (the generators
            # bound that cost, the shrinker does not): a short limit, and "no verdict" is not a disagreement
            codes, cerr = coq_eval_codes(pid + "s", [e if getattr(mod, "CODES", False) else f"cb ({e})"], timeout=45)
            if any(c == 1 for c in codes.values()) and not cerr:
                return r
    return None


def shrink(mod, pid, c, r, coq_ok, budget=40):
    if not hasattr(mod, "shrink_candidates"):
        return c, r
    steps = 0
    improved = True
    t_end = time.time() + 120           # wall-clock budget: a library that hangs on its inputs must not stall the report
    os.environ["VERIF_CASE_TIMEOUT"] = "15"
    while improved and steps < budget and time.time() < t_end:
        improved = False
        for c2 in mod.shrink_candidates(c):
            steps += 1
            if steps > budget or time.time() > t_end:
                break
            r2 = disagree(mod, pid, c2, coq_ok)
            if r2 is not None:
                c, r, improved = c2, r2, True
                break
    return c, r


def search_neighbours(mod, pid, c, budget=60):
    """Property-directed search around a disagreement: sub-cases of the shrunk input,
    implementation against the Python oracle of the specification."""
    if not hasattr(mod, "neighbours"):
        return None
    cands = []
    for c2 in mod.neighbours(c):
        if mod.oracle(c2) is not None:
            cands.append(c2)
        if len(cands) >= budget:
            break
    if not cands:
        return None
    os.environ["VERIF_CASE_TIMEOUT"] = "15"
    res, err = run_impl(pid, cands, tag="_search")
    if err:
        return None
    for c2, r2 in zip(cands, res):
        o = mod.oracle(c2)
        if not mod.agree(c2, r2, o):
            return c2, r2, o
    return None
