"""Runs a property's implementation adapter over a list of cases in a fresh interpreter.
Imports dyce from /repo's working tree (asserted)."""
import json
import os
import sys
import warnings

if hasattr(sys, "set_int_max_str_digits"):
    sys.set_int_max_str_digits(0)   # exact counts can have thousands of digits

warnings.simplefilter("ignore")
sys.setrecursionlimit(10000)


class CaseTimeout(BaseException):
    pass


def _limits():
    """a changed library may recurse or allocate without bound on some input: cap memory, and time per case, so
    that such a case becomes an answer ("Timeout" / "MemoryError") instead of taking the machine down"""
    import resource
    import signal
    gb = int(os.environ.get("VERIF_MEM_GB", "8"))
    try:
        resource.setrlimit(resource.RLIMIT_AS, (gb << 30, gb << 30))
    except (ValueError, OSError):
        pass

    def on_alarm(signum, frame):
        raise CaseTimeout()
    signal.signal(signal.SIGALRM, on_alarm)
    return signal


def main():
    pid, cin, cout = sys.argv[1:4]
    signal = _limits()
    import time
    per_case = float(os.environ.get("VERIF_CASE_TIMEOUT", "150"))
    budget = float(os.environ.get("VERIF_RUN_BUDGET", "420"))     # wall-clock seconds for the whole list of cases
    t0 = time.time()
    timeouts = 0
    import dyce
    repo = os.environ.get("DYCE_REPO", "/repo")
    assert os.path.realpath(dyce.__file__).startswith(os.path.realpath(repo) + os.sep), dyce.__file__
    import importlib
    mod = importlib.import_module(f"props.{pid}")
    cases = json.load(open(cin))
    out = []
    for c in cases:
        spent = time.time() - t0
        if timeouts >= 4 or spent > budget / 2:
            # the library hangs (or crawls) on input after input: the remaining cases get a bounded look each ...
            per_case = min(per_case, 2.0)
        if timeouts >= 16 or spent > budget:
            # ... and after many more of those, none (the run is reported with the inputs that timed out)
            out.append({"exc": "Timeout", "msg": "not run: the implementation timed out on earlier cases / the run exceeded its time budget"})
            continue
        try:
            signal.setitimer(signal.ITIMER_REAL, per_case)
            try:
                res = mod.impl_run(c)
            finally:
                signal.setitimer(signal.ITIMER_REAL, 0)
            out.append(res)
        except CaseTimeout:
            timeouts += 1
            out.append({"exc": "Timeout", "msg": f"no answer within {per_case} s"})
        except BaseException as e:  # noqa
            name = type(e).__name__
            if "Beartype" in name:
                name = "TypeCheck"
            out.append({"exc": name, "msg": str(e)[:200]})
    def nonjson(o):
        # an answer that is not a plain Python value (e.g. a NumPy scalar that leaked into counts): keep the case's
        # answer comparable - and different from every expected answer - instead of losing the whole run
        return {"NONJSON": type(o).__module__ + "." + type(o).__name__, "repr": repr(o)[:80]}
    json.dump(out, open(cout, "w"), default=nonjson)


if __name__ == "__main__":
    main()
