"""Runs a property's implementation adapter over a list of cases in a fresh interpreter.
Imports dyce from /repo's working tree (asserted)."""
import json
import os
import sys
import warnings

if hasattr(sys, "set_int_max_str_digits"):
    sys.set_int_max_str_digits(0)   # exact counts can have thousands of digits

warnings.simplefilter("ignore")
sys.setrecursionlimit(10000)


def main():
    pid, cin, cout = sys.argv[1:4]
    import dyce
    repo = os.environ.get("DYCE_REPO", "/repo")
    assert os.path.realpath(dyce.__file__).startswith(os.path.realpath(repo) + os.sep), dyce.__file__
    import importlib
    mod = importlib.import_module(f"props.{pid}")
    cases = json.load(open(cin))
    out = []
    for c in cases:
        try:
            out.append(mod.impl_run(c))
        except BaseException as e:  # noqa
            name = type(e).__name__
            if "Beartype" in name:
                name = "TypeCheck"
            out.append({"exc": name, "msg": str(e)[:200]})
    def nonjson(o):
        # an answer that is not a plain Python value (e.g. a NumPy scalar that leaked into counts): keep the case's
        # answer comparable - and different from every expected answer - instead of losing the whole run
        return {"NONJSON": type(o).__module__ + "." + type(o).__name__, "repr": repr(o)[:80]}
    json.dump(out, open(cout, "w"), default=nonjson)


if __name__ == "__main__":
    main()
