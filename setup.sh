#!/bin/bash
# Builds the Coq development from files on disk only (full .vo build).
set -e
cd "$(dirname "$0")/coq"
coq_makefile -f _CoqProject -o Makefile
timeout 3000 make -j16
