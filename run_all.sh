#!/bin/bash
# usage: run_all.sh [quick|thorough] [seed]   - runs every registered check on /repo as it is
cd "$(dirname "$0")"
tier=${1:-quick}; seed=${2:-}
[ -n "$seed" ] && export VERIF_SEED=$seed
for p in $(python3 -c "import json; print(' '.join(c['property_id'] for c in json.load(open('MANIFEST.json'))['checks']))"); do
  s=$(date +%s)
  out=$(./check $p --tier $tier 2>&1); rc=$?
  e=$(date +%s)
  echo "$p tier=$tier seed=${seed:-default} exit=$rc time=$((e-s))s $(echo "$out" | grep -c '^VIOLATION') violation(s) $(echo "$out" | grep -c '^KNOWN-FINDING') known"
  echo "$out" | grep '^VIOLATION' | head -3
done
